"""C20 — trace tools change only arrival times, within their stated bounds."""
from __future__ import annotations

import ast
from typing import Dict, List, Optional

from .. import norm, ratform
from ..model import own_nodes, stmt_text, parent
from ..util import cfg_of, calls_named, single_defs, loop_env
from .common import *
from . import pool as poolmod

EXPLANATION = (
    "Static decision of the structural clauses of C20 in eudoxia/tools.py.  (1) snap: the only store into a row uses the key "
    "'arrival_seconds'; every row read is written (writerow outside the condition) with the input's own field names.  (2) the "
    "value written is tick/tps with tick starting at floor(arrival*tps) (rational normal form).  (3) K14c exact selection: the "
    "tick is then corrected by comparisons against the forward map itself — the sandwich idiom `while G(k) > x: k -= 1; while "
    "G(k+1) <= x: k += 1` with the same G(k) = k/tps that produces the written value — which is what makes `never up`, `less than "
    "one tick`, `on-grid unchanged` and idempotence hold for every float; a floor of the rounded product alone does not.  (4) "
    "jitter: a negative delta exits; the offset is rng.uniform(0, delta) with the literal lower bound 0; the new arrival is "
    "original + offset; one draw per pipeline, on its first row.  (5) the generator is default_rng(seed), the seed being the "
    "parameter with a constant default; no other randomness source in the module.  (6) pipelines are collected in a list in file "
    "order, sorted by the jittered arrival with a stable ascending sort, the last pipeline is flushed, every collected row is "
    "written with the input's field names, and only 'arrival_seconds' is stored into a row.  (7) sensitivity-sample: task i gets "
    "seed start_seed + i, stores it in the parameter dict under a key that WorkloadGenerator.__init__ names, and always generates "
    "and writes its workload before analysing it.")
UNDECIDED = "nothing is executed: float behaviour is decided through the shape of the selection (comparisons against the forward map), not measured"
ASSUMPTIONS = COMMON_ASSUMPTIONS + ["csv.DictReader/DictWriter behave as documented; list.sort is stable"]


def _row_stores(f, rowv: str) -> List[ast.AST]:
    out = []
    for n in own_nodes(f.node):
        if isinstance(n, (ast.Assign, ast.AugAssign, ast.Delete)):
            for t in (n.targets if isinstance(n, (ast.Assign, ast.Delete)) else [n.target]):
                if isinstance(t, ast.Subscript) and norm.is_name(t.value, rowv):
                    out.append((n, t))
        if isinstance(n, ast.Call) and isinstance(n.func, ast.Attribute) and norm.is_name(n.func.value, rowv) and n.func.attr in ("update", "pop", "clear", "setdefault", "popitem"):
            out.append((n, n.func))
    return out


def check_snap(ctx):
    P = ctx.P
    f = P.fn(TOOLS, "snap_command")
    ctx.touch(f)
    g = cfg_of(f, subst_env=False)
    params = f.params()
    tps = params[2] if len(params) > 2 else "ticks_per_second"
    loops = [n for n in own_nodes(f.node) if isinstance(n, ast.For) and isinstance(n.iter, ast.Name) and isinstance(n.target, ast.Name)]
    rd = [c for c in calls_named(f, "DictReader")]
    wrc = [c for c in calls_named(f, "DictWriter")]
    rl = None
    for lp in loops:
        pa = [n for n in own_nodes(f.node) if isinstance(n, ast.Assign) and norm.is_name(n.targets[0], lp.iter.id) and isinstance(n.value, ast.Call) and norm.call_name(n.value) == "DictReader"]
        if pa:
            rl = lp
    ctx.ob(1, "K3", "snap processes the rows of a csv.DictReader in one loop", rl is not None, f, rl or f.node, construct="for row in reader", detail=f"{[stmt_text(l) for l in loops]}")
    if rl is None:
        return
    rowv, readerv = rl.target.id, rl.iter.id
    hid = g.node_of(rl).id
    ws = [c for c in ast.walk(rl) if isinstance(c, ast.Call) and norm.call_name(c) == "writerow"]
    ok = len(ws) == 1 and norm.is_name(norm.subst(ws[0].args[0], loop_env(rl)), rowv) and g.path_avoiding(hid, {hid, g.exit.id}, {g.node_of(ws[0]).id}, edge_ok=lambda a, b, lab: not (a == hid and lab == "done")) is None
    ctx.ob(1, "K3", "every row read is written, exactly as a whole row (rows without an arrival included: no pipeline and no operator is lost)", ok, f, ws[0] if ws else rl,
           construct="writer.writerow(row) for every row", detail=f"{len(ws)} writerow site(s)")
    fn = norm.kwarg(wrc[0], "fieldnames", 1) if wrc else None
    okf = fn is not None and norm.U(norm.subst(fn, single_defs(f))) == f"{readerv}.fieldnames"
    hdr = calls_named(f, "writeheader")
    ctx.ob(1, "K6", "the output has the input's own columns, in the input's order, with a header", okf and len(hdr) == 1, f, wrc[0] if wrc else f.node,
           construct="DictWriter(fieldnames=reader.fieldnames)", detail=f"fieldnames={norm.U(fn) if fn is not None else None}")
    stores = _row_stores(f, rowv)
    ok = len(stores) == 1 and isinstance(stores[0][1], ast.Subscript) and isinstance(stores[0][1].slice, ast.Constant) and stores[0][1].slice.value == "arrival_seconds"
    ctx.ob(1, "K1", "the only column snap modifies is arrival_seconds", ok, f, stores[0][0] if stores else rl, construct="stores into the row", detail=f"{[stmt_text(s) for s, _ in stores]}")
    if not ok:
        return
    st = stores[0][0]
    le = loop_env(rl)
    val = st.value
    # written value == k / tps
    v1 = norm.subst(val, le)
    kname = None
    if isinstance(v1, ast.BinOp) and isinstance(v1.op, ast.Div) and isinstance(v1.left, ast.Name) and norm.is_name(v1.right, tps):
        kname = v1.left.id
    ctx.ob(2, "K7", "the value written is tick / ticks_per_second for an integer tick", kname is not None, f, st, construct="snapped = tick / ticks_per_second", detail=f"written value: {norm.U(v1)}")
    if not kname:
        return
    x = None
    kdefs = [n for n in ast.walk(rl) if isinstance(n, ast.Assign) and norm.is_name(n.targets[0], kname)]
    okinit = False
    d = f"{[stmt_text(n) for n in kdefs]}"
    if len(kdefs) == 1:
        iv = norm.subst(kdefs[0].value, le)
        for cand in [n for n in ast.walk(rl) if isinstance(n, ast.Assign) and isinstance(n.targets[0], ast.Name)]:
            pass
        # x = float(row['arrival_seconds'])
        xs = [k for k, v in le.items() if norm.U(v) == f"float({rowv}['arrival_seconds'])"]
        if xs:
            x = xs[0]
            okinit = ratform.same(kdefs[0].value, ratform.parse(f"floor({x} * {tps})"))
    ctx.ob(2, "K7", "the tick starts at floor(arrival * ticks_per_second), the arrival being the float of the row's own arrival_seconds", okinit, f, kdefs[0] if kdefs else st,
           construct="tick = floor(arrival * ticks_per_second)", detail=d)
    # (3) sandwich
    whiles = [n for n in ast.walk(rl) if isinstance(n, ast.While)]
    down = up = None
    for w in whiles:
        if len(w.body) != 1 or not isinstance(w.body[0], ast.AugAssign) or not norm.is_name(w.body[0].target, kname) or not (isinstance(w.body[0].value, ast.Constant) and w.body[0].value.value == 1):
            continue
        t = w.test
        if not (isinstance(t, ast.Compare) and len(t.ops) == 1):
            continue
        l, r, op = norm.U(t.left), norm.U(t.comparators[0]), type(t.ops[0])
        G0, G1 = f"{kname} / {tps}", f"({kname} + 1) / {tps}"
        if isinstance(w.body[0].op, ast.Sub) and ((l == G0 and r == x and op is ast.Gt) or (l == x and r == G0 and op is ast.Lt)):
            down = w
        if isinstance(w.body[0].op, ast.Add) and ((l == G1 and r == x and op is ast.LtE) or (l == x and r == G1 and op is ast.GtE)):
            up = w
    okd = down is not None and g.dominates(kdefs[0], down) and g.dominates(down, st) if kdefs else False
    oku = up is not None and g.dominates(up, st) and (down is not None and g.dominates(down, up))
    ctx.ob(3, "K14c", "exact selection, lower side: the tick is decreased while its own time tick/tps is still above the arrival (`while tick/tps > x: tick -= 1`), so an arrival is never moved up",
           bool(okd), f, down or st, construct="sandwich: while G(k) > x: k -= 1", detail=f"found: {stmt_text(down) if down else None}; after the initialisation and before the store: {bool(okd)}")
    ctx.ob(3, "K14c", "exact selection, upper side: the tick is increased while the next tick's time (tick+1)/tps is still <= the arrival, so an arrival moves by less than one tick and "
           "a time on a boundary stays (snapping twice = once)", bool(oku), f, up or st, construct="sandwich: while G(k+1) <= x: k += 1",
           detail=f"found: {stmt_text(up) if up else None}; after the lower-side loop and before the store: {bool(oku)}")
    otherk = [n for n in ast.walk(rl) if isinstance(n, (ast.Assign, ast.AugAssign)) and any(norm.is_name(t, kname) for t in (n.targets if isinstance(n, ast.Assign) else [n.target]))
              and n not in kdefs and not (down and n is down.body[0]) and not (up and n is up.body[0])]
    ctx.ob(3, "K14c", "the selected tick is not changed otherwise", not otherk, f, otherk[0] if otherk else st, construct="other writes to the tick", detail=f"{[stmt_text(n) for n in otherk]}")
    # rows without arrival are left alone, rows with arrival are always snapped
    fs = g.facts_at(st)
    has = norm.entails(fs, ("truth", f"{rowv}['arrival_seconds'].strip()", True))
    ctx.ob(1, "K2", "an arrival is rewritten only where the row has one", has, f, st, construct="guard: arrival present", detail=f"facts: {sorted(norm.show(a) for a in fs)}")
    chk = [n for n in own_nodes(f.node) if isinstance(n, ast.If) and norm.nnf(n.test) in (("cmp", "<=", tps, "0"),) and any(isinstance(x_, ast.Call) and norm.call_name(x_) == "exit" for s in n.body for x_ in ast.walk(s))]
    ctx.ob(1, "K2", "a non-positive tick rate is refused", len(chk) == 1 and g.dominates(chk[0], rl), f, chk[0] if chk else f.node, construct="guard: ticks_per_second > 0", detail=f"{len(chk)}")


def check_jitter(ctx):
    P = ctx.P
    f = P.fn(TOOLS, "jitter_command")
    ctx.touch(f)
    g = cfg_of(f, subst_env=False)
    params = f.params()
    delta, seed = params[2], params[3]
    chk = [n for n in own_nodes(f.node) if isinstance(n, ast.If) and norm.nnf(n.test) == ("cmp", "<", delta, "0") and any(isinstance(x_, ast.Call) and norm.call_name(x_) == "exit" for s in n.body for x_ in ast.walk(s))]
    draws = [c for c in calls_named(f, "uniform")]
    ctx.ob(4, "K2", "a negative delta is refused before anything is drawn", len(chk) == 1 and all(g.dominates(chk[0], d) for d in draws), f, chk[0] if chk else f.node, construct="guard: delta >= 0", detail=f"{len(chk)}")
    # rng
    rngs = [n for n in own_nodes(f.node) if isinstance(n, ast.Assign) and isinstance(n.value, ast.Call) and norm.call_name(n.value) == "default_rng"]
    okr = len(rngs) == 1 and len(rngs[0].value.args) == 1 and norm.is_name(rngs[0].value.args[0], seed)
    sdefs = [n for n in own_nodes(f.node) if isinstance(n, ast.Assign) and norm.is_name(n.targets[0], seed)]
    oks = all(isinstance(n.value, ast.IfExp) and norm.nnf(n.value.test) == ("cmp", "isnot", seed, "None") and norm.is_name(n.value.body, seed) and isinstance(n.value.orelse, ast.Constant) for n in sdefs)
    ctx.ob(5, "K6", "the only random generator is numpy's default_rng seeded with the seed parameter (a constant stands in when none is given): the same seed gives the same jitter",
           okr and oks, f, rngs[0] if rngs else f.node, construct="rng = default_rng(seed)", detail=f"{[stmt_text(n) for n in rngs]}; seed definitions: {[stmt_text(n) for n in sdefs]}")
    m = P.mod(TOOLS)
    bad = []
    for n in ast.walk(m.tree):
        if isinstance(n, ast.Call):
            t = norm.U(n.func)
            if t.startswith(("random.", "np.random.")) and not t.endswith("default_rng"):
                bad.append(t)
        if isinstance(n, ast.Import) and any(a.name == "random" for a in n.names):
            bad.append("import random")
    ctx.ob(5, "K11", "tools.py uses no other source of randomness (no `random` module, no global numpy RNG)", not bad, file=TOOLS, construct="randomness sources in tools.py", detail=f"{bad}")
    rn = rngs[0].targets[0].id if rngs and isinstance(rngs[0].targets[0], ast.Name) else "rng"
    ok = len(draws) == 1 and norm.is_name(draws[0].func.value, rn) and len(draws[0].args) == 2 and isinstance(draws[0].args[0], ast.Constant) and draws[0].args[0].value == 0 \
        and not isinstance(draws[0].args[0].value, bool) and norm.is_name(draws[0].args[1], delta)
    ctx.ob(4, "K5", "the offset is drawn as rng.uniform(0, delta): never negative, never more than delta", ok, f, draws[0] if draws else f.node, construct="rng.uniform(0, delta)", detail=f"{[norm.U(d) for d in draws]}")
    drebind = [n for n in own_nodes(f.node) if isinstance(n, (ast.Assign, ast.AugAssign)) and any(norm.is_name(t, delta) for t in (n.targets if isinstance(n, ast.Assign) else [n.target]))]
    ctx.ob(4, "K1", "delta is the caller's value (not rebound)", not drebind, f, drebind[0] if drebind else f.node, construct="rebinding of delta", detail=f"{[stmt_text(n) for n in drebind]}")
    if not ok:
        return
    rl = enclosing_for(draws[0], f.node)
    ctx.ob(4, "K3", "one offset is drawn per pipeline, in file order, where its first row is read (the draw sits in the loop over the rows)", rl is not None, f, draws[0],
           construct="draw inside the row loop", detail="inside the row loop" if rl is not None else "the draw is made outside the loop over the rows: which pipeline gets which offset "
           "is decided elsewhere (by the order of some other collection)")
    if rl is None:
        return
    rowv = rl.target.id if isinstance(rl.target, ast.Name) else "row"
    le = loop_env(rl)
    stores = _row_stores(f, rowv)
    oks = len(stores) == 1 and isinstance(stores[0][1], ast.Subscript) and isinstance(stores[0][1].slice, ast.Constant) and stores[0][1].slice.value == "arrival_seconds"
    ctx.ob(6, "K1", "the only column jitter modifies is arrival_seconds", oks, f, stores[0][0] if stores else rl, construct="stores into a row", detail=f"{[stmt_text(s) for s, _ in stores]}")
    if oks:
        st = stores[0][0]
        jn = parent(draws[0]).targets[0].id if isinstance(parent(draws[0]), ast.Assign) else None
        v = norm.subst(st.value, {k: e for k, e in le.items() if k != jn})
        if isinstance(v, ast.Name):
            # `arrival = <sum>; row['arrival_seconds'] = arrival`: the value stored is what the statement just before it bound
            pb = parent(st)
            for _fld in ("body", "orelse", "finalbody"):
                blk = getattr(pb, _fld, None)
                if isinstance(blk, list) and st in blk and blk.index(st) > 0:
                    prev = blk[blk.index(st) - 1]
                    if isinstance(prev, ast.Assign) and len(prev.targets) == 1 and norm.is_name(prev.targets[0], v.id):
                        v = norm.subst(prev.value, {k: e for k, e in le.items() if k != jn})
                    break
        if jn is None:
            # the draw is not bound to a name of its own (`float(row[..]) + rng.uniform(0, delta)`): it stands for itself in the sum
            import copy as _copy
            dtxt = norm.U(draws[0])

            class _R(ast.NodeTransformer):
                hits = 0

                def visit_Call(self, n):
                    if norm.U(n) == dtxt:
                        _R.hits += 1
                        return ast.copy_location(ast.Name(id="draw__", ctx=ast.Load()), n)
                    return self.generic_visit(n)
            v2 = _R().visit(_copy.deepcopy(v))
            if _R.hits == 1:
                jn, v = "draw__", v2
        okv = jn is not None and ratform.same(v, ratform.parse(f"float({rowv}['arrival_seconds']) + {jn}"))
        ctx.ob(4, "K7", "the new arrival is the row's own arrival plus the offset", okv, f, st, construct="jittered = original + jitter", detail=f"{norm.U(v)}")
        ceq = g.control_equivalent(poolmod.stmt_of(draws[0]), st, rl)
        # the draw happens only where the row's pipeline id differs from the current one (nested if, or guard clause with continue)
        ds_ = poolmod.stmt_of(draws[0])
        newp = False
        for S in ast.walk(rl):
            # a statement that runs exactly when the draw runs, before it (the current-pipeline marker is typically updated in between)
            if isinstance(S, ast.stmt) and S is not rl and (S is ds_ or (g.dominates(S, ds_) and g.control_equivalent(S, ds_, rl))):
                if any(z[0] == "cmp" and z[1] == "!=" and "pipeline_id" in (z[2] + z[3]) for z in g.facts_at(S)):
                    newp = True
        ctx.ob(4, "K3", "exactly one offset is drawn per pipeline, on its first row, and applied to that row", ceq and newp, f, draws[0], construct="one draw per pipeline",
               detail=f"draw and store executed together: {ceq}; under `pipeline_id != current pipeline`: {newp}")
    # (6) collection, sort, write
    sorts = [c for c in own_nodes(f.node) if isinstance(c, ast.Call) and ((isinstance(c.func, ast.Attribute) and c.func.attr == "sort") or norm.is_name(c.func, "sorted"))]
    oksort = False
    L = None
    d = f"{[norm.U(s) for s in sorts]}"
    if len(sorts) == 1:
        s = sorts[0]
        if isinstance(s.func, ast.Attribute) and isinstance(s.func.value, ast.Name):
            L = s.func.value.id
        key = norm.kwarg(s, "key")
        rev = norm.kwarg(s, "reverse")
        from .c11 import _key_index
        ki = _key_index(key) if key is not None else None
        oksort = L is not None and ki == (0, False) and (rev is None or (isinstance(rev, ast.Constant) and rev.value is False))
    ctx.ob(6, "K5", "pipelines are ordered by their jittered arrival with a stable ascending sort keyed on the arrival alone (equal arrivals keep file order)", oksort, f,
           sorts[0] if sorts else f.node, construct="pipelines.sort(key=arrival)", detail=d)
    if L:
        apps = [c for c in calls_named(f, "append") if isinstance(c.func, ast.Attribute) and norm.is_name(c.func.value, L)]
        init = [n for n in own_nodes(f.node) if isinstance(n, ast.Assign) and norm.is_name(n.targets[0], L)]
        oki = len(init) == 1 and isinstance(init[0].value, ast.List) and not init[0].value.elts
        inloop = [a for a in apps if enclosing_for(a, f.node) is rl]
        after = [a for a in apps if enclosing_for(a, f.node) is None and before(f, rl, a)]
        entries_ok = all(isinstance(a.args[0], ast.Tuple) and len(a.args[0].elts) == 2 for a in apps)
        okflush = len(after) == 1 and norm.entails(g.facts_at(after[0]), ("truth", norm.U(after[0].args[0].elts[1]), True)) if after and entries_ok else False
        if okflush:
            IN = g.facts(blocked={g.node_of(after[0]).id})
            sid = g.node_of(sorts[0]).id
            fs2 = IN.get(sid)
            okflush = fs2 is None or norm.entails(fs2, ("truth", norm.U(after[0].args[0].elts[1]), False))
        ctx.ob(6, "K16", "pipelines are collected in a list, in file order, and the last pipeline is flushed after the loop (none is lost, none merged)",
               oki and len(inloop) == 1 and okflush and entries_ok and before(f, after[0], sorts[0]) if (after and sorts) else False, f, after[0] if after else rl,
               construct="collect + flush", detail=f"list initialised empty: {oki}; appends in the loop: {len(inloop)}; flush after the loop under non-empty rows: {okflush}")
        # (arrival, rows) entries: rows list gets every row of the pipeline
        # writing
        wl = [n for n in own_nodes(f.node) if isinstance(n, ast.For) and norm.is_name(n.iter, L) and before(f, sorts[0], n)] if sorts else []
        okw = False
        if len(wl) == 1 and isinstance(wl[0].target, ast.Tuple) and len(wl[0].target.elts) == 2:
            rowsv = wl[0].target.elts[1].id
            inner = [n for n in wl[0].body if isinstance(n, ast.For) and norm.is_name(n.iter, rowsv)]
            if len(inner) == 1:
                wr = [c for c in ast.walk(inner[0]) if isinstance(c, ast.Call) and norm.call_name(c) == "writerow"]
                okw = len(wr) == 1 and norm.is_name(wr[0].args[0], inner[0].target.id)
        wrc = calls_named(f, "DictWriter")
        fnm = norm.kwarg(wrc[0], "fieldnames", 1) if wrc else None
        e = single_defs(f)
        rdn = rl.iter.id if isinstance(rl.iter, ast.Name) else "reader"
        okf = fnm is not None and norm.U(norm.subst(fnm, e)) == f"{rdn}.fieldnames" and len(calls_named(f, "writeheader")) == 1
        ctx.ob(6, "K3", "after sorting, every collected row of every pipeline is written, with the input's own columns and a header", okw and okf, f, wl[0] if wl else f.node,
               construct="write sorted pipelines", detail=f"write loops ok: {okw}; fieldnames from the reader: {okf}")
        # the output exists only as the product of collect -> sort -> write: no successful way through the command goes around the sort,
        # and nothing else produces the output file
        exits0 = {n.id for n in g.nodes if n.ast is not None and isinstance(n.ast, ast.Expr) and isinstance(n.ast.value, ast.Call) and norm.call_name(n.ast.value) == "exit"}
        byp = g.path_avoiding(g.entry.id, {g.exit.id}, {g.node_of(sorts[0]).id} | exits0) if sorts else []
        params_ = f.params()
        outp = params_[1] if len(params_) > 1 else "output_file"
        outnames = {outp} | {k for k, v in e.items() if outp in norm.names_in(v)}
        other_out = [c for c in own_nodes(f.node) if isinstance(c, ast.Call) and norm.call_name(c) in ("copyfile", "copy", "copy2", "move", "rename", "replace", "write_text", "write_bytes", "link_to", "symlink_to")
                     and any(isinstance(x, ast.Name) and x.id in outnames for a_ in list(c.args) + [k.value for k in c.keywords] + ([c.func.value] if isinstance(c.func, ast.Attribute) else []) for x in ast.walk(a_))]
        ctx.ob(6, "K3", "every successful run of jitter goes through the sort, and the output file is produced only by writing the sorted pipelines", byp is None and not other_out, f,
               other_out[0] if other_out else (sorts[0] if sorts else f.node), construct="no way around collect-sort-write",
               detail=("every path to a normal return passes the sort" if byp is None else f"bypass: {g.describe_path(byp)}") + f"; other producers of the output: {[norm.U(c)[:60] for c in other_out]}")
        # rows of a pipeline: first row starts the list, later rows appended
        rowlists = [n for n in ast.walk(rl) if isinstance(n, ast.Assign) and isinstance(n.value, ast.List) and len(n.value.elts) == 1 and norm.is_name(n.value.elts[0], rowv)]
        rapp = [c for c in ast.walk(rl) if isinstance(c, ast.Call) and isinstance(c.func, ast.Attribute) and c.func.attr == "append" and c.args and norm.is_name(c.args[0], rowv)]
        hid = g.node_of(rl).id
        put = {g.node_of(n).id for n in rowlists} | {g.node_of(c).id for c in rapp}
        exits = {n.id for n in g.nodes if n.ast is not None and isinstance(n.ast, ast.Expr) and isinstance(n.ast.value, ast.Call) and norm.call_name(n.ast.value) == "exit"}
        miss = g.path_avoiding(hid, {hid}, put | exits, edge_ok=lambda a, b, lab: not (a == hid and lab == "done"))
        ctx.ob(6, "K16", "every row of the input joins the row list of its pipeline (rows are neither dropped nor reordered within a pipeline)", miss is None and bool(put), f, rl,
               construct="every row collected", detail="ok" if miss is None else g.describe_path(miss))


def check_sample(ctx):
    P = ctx.P
    from ..util import desugar_extend
    sc = desugar_extend(P.fn(TOOLS, "sensitivity_sample_command"), lists=True)    # tasks = [Task(..) for i in range(n)] is the loop it abbreviates
    ctx.touch(sc)
    tasks = calls_named(sc, "SensitivityTask")
    ok = False
    d = f"{len(tasks)} task construction(s)"
    if len(tasks) == 1:
        lp = enclosing_for(tasks[0], sc.node)
        if lp is not None and isinstance(lp.target, ast.Name) and norm.U(lp.iter) == f"range({sc.params()[2]})":
            le = loop_env(lp)
            sv = norm.kwarg(tasks[0], "seed", 3)
            wi = norm.kwarg(tasks[0], "workload_index", 0)
            ok = sv is not None and ratform.same(norm.subst(sv, le), ratform.parse(f"{sc.params()[3]} + {lp.target.id}")) and wi is not None and norm.is_name(wi, lp.target.id)
            d = f"seed={norm.U(norm.subst(sv, le)) if sv is not None else None}; workload_index={norm.U(wi) if wi is not None else None}"
    ctx.ob(7, "K7", "sample i is given the seed start_seed + i", ok, sc, tasks[0] if tasks else sc.node, construct="SensitivityTask(seed=start_seed + i)", detail=d)
    t = P.fn(TOOLS, "_sensitivity_task")
    ctx.touch(t)
    g = cfg_of(t, subst_env=False)
    tp = t.params()[0]
    gens = calls_named(t, "WorkloadGenerator")
    ok = len(gens) == 1 and len(gens[0].keywords) == 1 and gens[0].keywords[0].arg is None and isinstance(gens[0].keywords[0].value, ast.Name)
    ctx.ob(7, "K6", "the task builds its workload from a parameter dict (WorkloadGenerator(**params))", ok, t, gens[0] if gens else t.node, construct="WorkloadGenerator(**params_with_seed)", detail=f"{[norm.U(c) for c in gens]}")
    if not ok:
        return
    D = gens[0].keywords[0].value.id
    stores = [n for n in own_nodes(t.node) if isinstance(n, ast.Assign) and isinstance(n.targets[0], ast.Subscript) and norm.is_name(n.targets[0].value, D) and norm.U(n.value) == f"{tp}.seed"]
    gi = P.fn(WL, "WorkloadGenerator.__init__")
    named = set(gi.params())
    okk = len(stores) == 1 and isinstance(stores[0].targets[0].slice, ast.Constant) and stores[0].targets[0].slice.value in named and stores[0].targets[0].slice.value == "random_seed" \
        and g.dominates(stores[0], gens[0])
    key = stores[0].targets[0].slice.value if stores and isinstance(stores[0].targets[0].slice, ast.Constant) else None
    ctx.ob(7, "K15", "the per-sample seed is stored under the key the generator reads (a named parameter of WorkloadGenerator.__init__ that seeds its rng), before the generator is built",
           okk, t, stores[0] if stores else gens[0], construct="params['random_seed'] = task.seed",
           detail=f"key: {key!r}; parameters named by WorkloadGenerator.__init__: {sorted(named - {'self'})} (anything else falls into **kwargs and is ignored)")
    # the dict is a copy of the loaded parameters; nothing overwrites the seed afterwards
    dd = [n for n in own_nodes(t.node) if isinstance(n, ast.Assign) and norm.is_name(n.targets[0], D)]
    okc = len(dd) == 1 and isinstance(dd[0].value, ast.Call) and norm.call_name(dd[0].value) == "copy"
    later = [n for n in own_nodes(t.node) if isinstance(n, ast.Assign) and isinstance(n.targets[0], ast.Subscript) and norm.is_name(n.targets[0].value, D) and n not in stores]
    ctx.ob(7, "K6", "the seed is the only parameter changed for the sample", okc and not later, t, dd[0] if dd else t.node, construct="params_with_seed = params.copy()", detail=f"other stores: {[stmt_text(n) for n in later]}")
    # generation and writing are unconditional before the analysis
    an = calls_named(t, "sensitivity_command")
    wr = [c for c in calls_named(t, "write_row")]
    ok = len(an) == 1 and len(wr) == 1
    if ok:
        wl = enclosing_for(wr[0], t.node)
        byp = g.path_avoiding(g.entry.id, {g.node_of(an[0]).id}, {g.node_of(wl).id if wl is not None else g.node_of(wr[0]).id})
        byg = g.path_avoiding(g.entry.id, {g.node_of(an[0]).id}, {g.node_of(gens[0]).id})
        src = wl is not None and norm.U(wl.iter).endswith(".generate_rows()")
        # the file written is the file analysed: open(<path>, 'w') with the very path expression that is handed to the analysis
        env_ = single_defs(t)

        def _path(e):
            e = norm.subst(e, env_)
            while isinstance(e, ast.Call) and isinstance(e.func, ast.Name) and e.func.id in ("str", "Path") and len(e.args) == 1:
                e = e.args[0]
            return norm.U(e)
        target = _path(an[0].args[1]) if len(an[0].args) >= 2 else (_path(norm.kwarg(an[0], "workload")) if norm.kwarg(an[0], "workload") is not None else None)
        opens = [w for w in own_nodes(t.node) if isinstance(w, ast.With) and any(
            isinstance(i.context_expr, ast.Call) and norm.is_name(i.context_expr.func, "open") and len(i.context_expr.args) >= 2 and isinstance(i.context_expr.args[1], ast.Constant)
            and i.context_expr.args[1].value == "w" and target is not None and _path(i.context_expr.args[0]) == target for i in w.items)
            and any(wr[0] is x for x in ast.walk(w))]
        ok = byp is None and byg is None and src and len(opens) == 1
        d = f"the workload is generated on every path to the analysis: {byg is None}; and written (mode 'w') on every path: {byp is None and len(opens) == 1}"
    ctx.ob(7, "K3", "workload i is always generated from its seed and written before it is analysed (an existing file is never reused)", ok, t, wr[0] if wr else t.node,
           construct="generate + write before sensitivity_command", detail=d if an and wr else "sites missing")
    tg = calls_named(t, "WorkloadTraceGenerator")
    okg = len(tg) == 1 and norm.U(norm.kwarg(tg[0], "workload", 0)) == (parent(gens[0]).targets[0].id if isinstance(parent(gens[0]), ast.Assign) else "?")
    ctx.ob(7, "K6", "the trace written is the one of the generator built from the seeded parameters", okg, t, tg[0] if tg else t.node, detail=f"{[norm.U(c) for c in tg]}")


def run(ctx):
    check_snap(ctx)
    check_jitter(ctx)
    check_sample(ctx)
