"""C01 — operators never start before their parents have completed; DAG iteration is topological."""
from __future__ import annotations

import ast
from typing import List, Optional

from .. import norm
from ..model import AnalysisError, own_nodes, parent, stmt_text, ancestors
from ..util import attr_writes, cfg_of, calls_named, package_calls, single_defs
from .common import *
from . import c02

EXPLANATION = (
    "Static decision of the structural clauses of C01: (1) PipelineRuntimeStatus.check_transition returns a true verdict "
    "only under `new_state in VALID_TRANSITIONS[current state]` (must-facts on the CFG, current_state resolved to "
    "self.operator_states[operator]); (2) a true verdict for new_state == RUNNING is reachable only through the normal "
    "exit of a loop over operator.parents (or an all()/any() test) that returns a false verdict for every parent whose "
    "state is not COMPLETED; (3) transition() asserts that verdict before any mutation; (4) writer inventory of the "
    "state tables; (5) Operator.transition forwards (self, new_state) unchanged; (6) RUNNING transitions exist only in "
    "Container._tick_generator, as the first action on each operator of self.operators in list order; (7) get_ops "
    "appends an operator only if its state is allowed and (not require_parents_complete or all parents COMPLETED) and "
    "lists operators in insertion order of operator_states, which (8) is filled by iterating the pipeline DAG and is keyed by operator "
    "identity (neither Operator nor a base class defines a value-based __eq__/__hash__; id-based forms are identity); "
    "(9) DAGIterator.__next__ marks the node returned before scanning children and enqueues a child only if it has "
    "not been returned and all its parents have (Kahn's invariant), returning the element it dequeued; (10) "
    "DAG.add_node asserts parents are members before adding both edge directions and records roots. With C02's table "
    "(COMPLETED terminal) these imply: an operator whose parent is unfinished cannot enter RUNNING — the request "
    "raises before any state changes — for every schedule, DAG and fault history.")
UNDECIDED = ("no simulation or DAG enumeration is executed; 'every DAG on up to 6 nodes exhaustively' is replaced by the "
             "guard argument (9)-(10), which is not restricted to 6 nodes; duplicate parent edges (a multigraph) are outside the argument")
ASSUMPTIONS = COMMON_ASSUMPTIONS


def _is_false_verdict_exit(st: ast.stmt) -> bool:
    if isinstance(st, ast.Raise):
        return True
    if isinstance(st, ast.Return) and st.value is not None:
        v = st.value
        if isinstance(v, ast.Tuple) and v.elts and isinstance(v.elts[0], ast.Constant) and v.elts[0].value is False:
            return True
        if isinstance(v, ast.Constant) and v.value is False:
            return True
    return False


def _maybe_true_verdict(st: ast.Return) -> bool:
    v = st.value
    if v is None:
        return False  # returns None: falsy first element cannot be unpacked as accepted... treated as not-true
    if isinstance(v, ast.Tuple) and v.elts and isinstance(v.elts[0], ast.Constant):
        return bool(v.elts[0].value)
    if isinstance(v, ast.Constant):
        return bool(v.value)
    return True


def all_over(e: ast.expr, coll_pred, elt_pred) -> bool:
    """e is all(<elt> for v in <coll>) (no filters) with coll_pred(coll) and elt_pred(elt, v)."""
    if not (isinstance(e, ast.Call) and norm.is_name(e.func, "all") and len(e.args) == 1):
        return False
    g = e.args[0]
    if not isinstance(g, (ast.GeneratorExp, ast.ListComp)) or len(g.generators) != 1:
        return False
    c = g.generators[0]
    if c.ifs or not isinstance(c.target, ast.Name):
        return False
    return coll_pred(c.iter) and elt_pred(g.elt, c.target.id)


def _state_cmp(e: ast.expr, var: str, table_attr: str = "operator_states", eq: bool = True) -> bool:
    """e is  self.operator_states[var] == OperatorState.COMPLETED (or != when eq is False), either operand order."""
    if not (isinstance(e, ast.Compare) and len(e.ops) == 1):
        return False
    if not isinstance(e.ops[0], ast.Eq if eq else ast.NotEq):
        return False
    l, r = e.left, e.comparators[0]
    for a, b in ((l, r), (r, l)):
        if (isinstance(a, ast.Subscript) and isinstance(a.value, ast.Attribute) and a.value.attr == table_attr
                and norm.is_name(a.slice, var) and state_of(b) == "COMPLETED"):
            return True
    return False


def parents_completed_all(e: ast.expr, opname: str) -> bool:
    return all_over(e, lambda c: isinstance(c, ast.Attribute) and c.attr == "parents" and norm.is_name(c.value, opname),
                    lambda elt, v: _state_cmp(elt, v))


def _abstract_facts(facts, opname: str):
    """Replace the truthiness atom of `all(<state[p]==COMPLETED> for p in op.parents)` by the token @PARENTS_DONE."""
    out = set()

    def tr(f):
        if f[0] == "truth":
            try:
                e = ast.parse(f[1], mode="eval").body
            except SyntaxError:
                return f
            if parents_completed_all(e, opname):
                return ("truth", "@PARENTS_DONE", f[2])
            if isinstance(e, ast.Call) and norm.is_name(e.func, "any") and len(e.args) == 1 and isinstance(e.args[0], (ast.GeneratorExp, ast.ListComp)):
                g = e.args[0]
                if len(g.generators) == 1 and not g.generators[0].ifs and isinstance(g.generators[0].target, ast.Name):
                    c = g.generators[0]
                    if isinstance(c.iter, ast.Attribute) and c.iter.attr == "parents" and norm.is_name(c.iter.value, opname) \
                            and _state_cmp(g.elt, c.target.id, eq=False):
                        return ("truth", "@PARENTS_DONE", not f[2])
            return f
        if f[0] in ("and", "or"):
            return norm._mk(f[0], [tr(k) for k in f[1]])
        return f
    for f in facts:
        out.add(tr(f))
    return out


def check_check_transition(ctx):
    P = ctx.P
    from ..util import inline_predicates
    f = inline_predicates(P, P.fn(RS, "PipelineRuntimeStatus.check_transition"))   # private pure predicates are looked through
    ctx.touch(f)
    params = f.params()
    ctx.need(len(params) >= 3, "check_transition must take (self, operator, new_state)")
    op_p, ns_p = params[1], params[2]
    g = cfg_of(f)  # conditions normalised with single-definition locals substituted
    rets = [n for n in own_nodes(f.node) if isinstance(n, ast.Return)]
    trues = [r for r in rets if _maybe_true_verdict(r)]
    ctx.count_min("accepting returns of check_transition", len(trues), 1)
    # fall-off-the-end returns None -> transition() would fail to unpack: not an accepting path
    goal1 = ("cmp", "in", ns_p, f"VALID_TRANSITIONS[self.operator_states[{op_p}]]")
    for r in trues:
        fs = g.facts_at(r)
        ok = norm.entails(fs, goal1)
        ctx.ob(1, "K2", "an accepting verdict requires `new_state in VALID_TRANSITIONS[current state of the operator]`", ok, f, r,
               detail=f"required: {norm.show(goal1)}; facts at the return: {sorted(norm.show(x) for x in fs)}")
    # (2) dependency gate for RUNNING
    env = single_defs(f)
    gate_loops = []
    for lp in (n for n in own_nodes(f.node) if isinstance(n, ast.For)):
        if not (isinstance(lp.iter, ast.Attribute) and lp.iter.attr == "parents" and norm.is_name(lp.iter.value, op_p)
                and isinstance(lp.target, ast.Name)):
            continue
        v = lp.target.id
        okbody = False
        for i, st in enumerate(lp.body):
            if any(isinstance(x, (ast.Continue, ast.Break)) for x in ast.walk(st)) and not isinstance(st, ast.If):
                break
            if isinstance(st, ast.If) and _state_cmp(st.test, v, eq=False) and st.body and _is_false_verdict_exit(st.body[-1]) \
                    and not any(isinstance(x, (ast.Continue, ast.Break)) for s2 in st.body for x in ast.walk(s2)):
                okbody = True
                break
            if isinstance(st, ast.If) and isinstance(st.test, ast.UnaryOp) and isinstance(st.test.op, ast.Not) \
                    and _state_cmp(st.test.operand, v, eq=True) and st.body and _is_false_verdict_exit(st.body[-1]):
                okbody = True
                break
            if any(isinstance(x, (ast.Continue, ast.Break)) for x in ast.walk(st)):
                break
        has_break = any(isinstance(x, ast.Break) for s in lp.body for x in ast.walk(s))
        if okbody and not has_break:
            gate_loops.append(lp)
    not_running = norm.nnf(ast.parse(f"{ns_p} != OperatorState.RUNNING", mode="eval").body)
    # concrete spellings of "all parents COMPLETED" that occur in the function's conditions (for a path-sensitive query at joins)
    done_atoms = set()
    for nd in g.nodes:
        for t_, lab in nd.succ:
            if isinstance(lab, tuple) and lab[0] == "cond":
                for a_ in norm.atoms_true(lab[1]):
                    for b_ in ([a_] if a_[0] != "or" else list(a_[1])):
                        ab = list(_abstract_facts({b_}, op_p))[0]
                        if ab == ("truth", "@PARENTS_DONE", True):
                            done_atoms.add(b_)
    for r in trues:
        fs_abs = _abstract_facts(g.facts_at(r), op_p)
        if norm.entails(fs_abs, norm._mk("or", [not_running, ("truth", "@PARENTS_DONE", True)])) \
                or (done_atoms and g.holds_at(r, norm._mk("or", [not_running] + sorted(done_atoms)))):
            ctx.ob(2, "K2", "an accepting verdict for RUNNING requires every parent to be COMPLETED", True, f, r,
                   detail="all()-form dependency test (or new_state != RUNNING) holds at the return")
            continue
        ok = False
        detail = "no loop over operator.parents that rejects a not-COMPLETED parent was found"
        for lp in gate_loops:
            hid = g.node_of(lp).id
            IN = g.facts(blocked={hid})
            rid = g.node_of(r).id
            fs = IN.get(rid)
            if fs is None:
                ok = True
                detail = f"every path to the return passes the dependency loop at L{lp.lineno} (normal exit = all parents COMPLETED)"
                break
            if norm.entails(fs, not_running):
                ok = True
                detail = (f"paths that bypass the dependency loop at L{lp.lineno} carry new_state != RUNNING; paths through it "
                          f"leave it only by its normal exit (all parents COMPLETED) or with a rejecting verdict")
                break
            detail = (f"the return is reachable without passing the dependency loop at L{lp.lineno} on a path where new_state may be RUNNING; "
                      f"facts on such paths: {sorted(norm.show(x) for x in fs)}")
        ctx.ob(2, "K2", "an accepting verdict for RUNNING requires every parent to be COMPLETED", ok, f, r, detail=detail)
    # the table consulted is the module-level literal (not shadowed)
    shadows = [n for n in own_nodes(f.node) if isinstance(n, ast.Name) and n.id == "VALID_TRANSITIONS" and isinstance(n.ctx, ast.Store)]
    ctx.ob(1, "K1", "check_transition consults the module-level VALID_TRANSITIONS (not a local shadow)", not shadows, f, f.node,
           construct="VALID_TRANSITIONS binding", detail=f"local rebinds: {len(shadows)}")


def check_operator_forward(ctx):
    P = ctx.P
    f = P.fn(PL, "Operator.transition")
    ctx.touch(f)
    params = f.params()
    ctx.need(len(params) == 2, "Operator.transition must take (self, new_state)")
    calls = [c for c in calls_named(f, "transition") if isinstance(c.func, ast.Attribute)]
    good = [c for c in calls if len(c.args) == 2 and not c.keywords and norm.is_name(c.args[0], "self") and norm.is_name(c.args[1], params[1])
            and norm.U(norm.subst(c.func.value, single_defs(f))) == "self.pipeline.runtime_status()"]
    ok = len(good) == 1 and len(calls) == 1
    detail = f"calls: {[norm.U(c) for c in calls]}"
    if ok:
        g = cfg_of(f)
        p = g.path_avoiding(g.entry.id, {g.exit.id}, {g.node_of(good[0]).id})
        if p is not None:
            ok = False
            detail += f"; path that skips the forwarding call: {g.describe_path(p)}"
    ctx.ob(5, "K6", "Operator.transition forwards (self, new_state) unchanged to its pipeline's runtime status on every path", ok, f,
           good[0] if good else f.node, construct="self.pipeline.runtime_status().transition(self, new_state)", detail=detail)


def check_running_sites(ctx):
    P = ctx.P
    gen = P.fn(CT, "Container._tick_generator")
    ctx.touch(gen)
    sites = []
    for fn_ in P.all_funcs():
        for c, recv, st in transition_calls(fn_):
            if st == "RUNNING" or st is None:
                sites.append((fn_, c, recv, st))
    run_sites = [s for s in sites if s[3] == "RUNNING"]
    ctx.count_min("RUNNING transition sites", len(run_sites), 1)
    for fn_, c, recv, st in sites:
        if st is None:
            # a transition whose target is not a literal member: allowed only for the two forwarding wrappers
            ok = (fn_.mod.rel, fn_.qual) in ((PL, "Operator.transition"), (RS, "PipelineRuntimeStatus.transition"))
            ctx.ob(6, "K1", "transitions with a computed target state exist only in the forwarding wrappers", ok, fn_, c,
                   detail=f"in {fn_.mod.rel}::{fn_.qual}")
            continue
        ctx.ob(6, "K1", "operators are moved to RUNNING only by Container._tick_generator", same_fn(fn_, gen), fn_, c,
               detail=f"RUNNING transition in {fn_.mod.rel}::{fn_.qual}")
    g = cfg_of(gen, subst_env=False)
    for fn_, c, recv, st in run_sites:
        if not same_fn(fn_, gen):
            continue
        lp = enclosing_for(c, gen.node)
        ok = False
        detail = "RUNNING transition is not in a loop over self.operators"
        if lp is not None:
            it = lp.iter
            seq = None
            var = None
            if isinstance(it, ast.Call) and norm.is_name(it.func, "enumerate") and it.args and isinstance(lp.target, ast.Tuple) \
                    and len(lp.target.elts) == 2 and isinstance(lp.target.elts[1], ast.Name):
                seq, var = it.args[0], lp.target.elts[1].id
                if len(it.args) > 1 or it.keywords:
                    seq = seq  # a start offset does not change the element order
            elif isinstance(lp.target, ast.Name):
                seq, var = it, lp.target.id
            if seq is not None and (self_attr(seq, "operators") or norm.U(seq) == "self.assignment.ops") and norm.is_name(recv, var):
                # first action of the iteration: no yield and no other transition can precede it in the iteration
                hid = g.node_of(lp).id
                cid = g.node_of(c).id
                bad = {n.id for n in g.nodes if n.is_yield}
                for c2, r2, s2 in transition_calls(gen):
                    if c2 is not c:
                        bad.add(g.node_of(c2).id)
                bad.discard(cid)
                # a path header -iter-> ... -> (yield | other transition) that avoids the RUNNING call
                p = g.path_avoiding(hid, bad, {cid}, edge_ok=lambda a, b, lab, hid=hid: not (a == hid and lab == "done"))
                # and the call must be executed in every iteration
                p2 = g.path_avoiding(hid, {hid}, {cid}, edge_ok=lambda a, b, lab, hid=hid: not (a == hid and lab == "done"))
                ok = p is None and p2 is None and enclosing_for(lp, gen.node) is None
                detail = (f"loop `{stmt_text(lp)}` iterates the container's operator list in order; RUNNING is the first action of every iteration"
                          if ok else f"loop `{stmt_text(lp)}`: " + (f"a tick or another transition can precede RUNNING: {g.describe_path(p)}" if p else "")
                          + (f" an iteration can skip RUNNING: {g.describe_path(p2)}" if p2 else ""))
            else:
                detail = f"loop iterates {norm.U(it)} (required: self.operators in list order) / receiver {norm.U(recv)}"
        ctx.ob(6, "K3", "each operator of the container's list is started (RUNNING) in list order, as the first action of its turn", ok, gen, c, detail=detail)


def check_get_ops(ctx):
    P = ctx.P
    from ..util import inline_predicates
    f = inline_predicates(P, P.fn(RS, "PipelineRuntimeStatus.get_ops"))
    ctx.touch(f)
    params = f.params()
    ctx.need("require_parents_complete" in params and len(params) >= 2, "get_ops lost its (state, require_parents_complete) parameters")
    state_p = params[1]
    g = cfg_of(f)
    rets = [n for n in own_nodes(f.node) if isinstance(n, ast.Return) and n.value is not None]
    ctx.count_min("returns of get_ops", len(rets), 1)
    if len(rets) == 1 and isinstance(rets[0].value, ast.ListComp) and len(rets[0].value.generators) == 1:
        _check_get_ops_comprehension(ctx, f, g, rets[0], state_p)
        _check_status_init(ctx)
        return
    res_names = {norm.U(r.value) for r in rets}
    ok_ret = len(res_names) == 1 and all(isinstance(r.value, ast.Name) for r in rets)
    res = rets[0].value.id if ok_ret else None
    ctx.ob(7, "K6", "get_ops returns the list it built, unmodified", ok_ret, f, rets[0], detail=f"returned expressions: {sorted(res_names)}")
    if not res:
        return
    # every way `res` gets content
    adds = []
    for n in own_nodes(f.node):
        if isinstance(n, ast.Call) and isinstance(n.func, ast.Attribute) and norm.is_name(n.func.value, res):
            adds.append(n)
        if isinstance(n, (ast.Assign, ast.AugAssign)):
            tg = n.targets if isinstance(n, ast.Assign) else [n.target]
            if any(norm.is_name(t, res) for t in tg):
                adds.append(n)
    appends = [a for a in adds if isinstance(a, ast.Call) and a.func.attr == "append"]
    inits = [a for a in adds if isinstance(a, ast.Assign) and isinstance(a.value, ast.List) and not a.value.elts]
    others = [a for a in adds if a not in appends and a not in inits]
    ctx.count_min("result.append sites in get_ops", len(appends), 1)
    ctx.ob(7, "K6", "the result list is only initialised empty and appended to (no sort/reverse/insert/extend)", not others, f,
           others[0] if others else inits[0] if inits else f.node, construct="mutations of the result list",
           detail=f"other operations: {[stmt_text(x) if isinstance(x, ast.stmt) else norm.U(x) for x in others]}")
    for ap in appends:
        lp = enclosing_for(ap, f.node)
        opv = norm.U(ap.args[0]) if ap.args else None
        ok_loop = False
        state_txt = None
        d = "append is not inside a loop over self.operator_states"
        if lp is not None and ap.args and isinstance(ap.args[0], ast.Name):
            it = norm.U(lp.iter)
            if it == "self.operator_states.items()" and isinstance(lp.target, ast.Tuple) and len(lp.target.elts) == 2 \
                    and norm.is_name(lp.target.elts[0], opv) and isinstance(lp.target.elts[1], ast.Name):
                ok_loop, state_txt = True, lp.target.elts[1].id
            elif it in ("self.operator_states", "self.operator_states.keys()", "list(self.operator_states)") and norm.is_name(lp.target, opv):
                ok_loop, state_txt = True, f"self.operator_states[{opv}]"
            d = f"loop: {stmt_text(lp)}"
            if enclosing_for(lp, f.node) is not None:
                ok_loop = False
                d += " (nested in another loop: operators could be listed more than once)"
        ctx.ob(8, "K6", "get_ops lists operators in the insertion order of operator_states (one pass, no reordering)", ok_loop, f, ap, detail=d)
        if not ok_loop:
            continue
        fs = g.facts_at(ap)
        fs_abs = _abstract_facts(fs, opv)
        allowed_names = _allowed_names(f, state_p)
        ok_state = any(norm.entails(fs, ("cmp", "in", state_txt, a)) for a in allowed_names) \
            or norm.entails(fs, norm.mk_cmp("==", state_txt, state_p))
        ctx.ob(7, "K2", "an operator is listed only if its current state is one of the requested states", ok_state, f, ap,
               detail=f"required: {state_txt} in <{'|'.join(sorted(allowed_names))}> (derived from the state parameter); facts: {sorted(norm.show(x) for x in fs)}")
        goal = norm._mk("or", [("truth", "require_parents_complete", False), ("truth", "@PARENTS_DONE", True)])
        ok_par = norm.entails(fs_abs, goal)
        ctx.ob(7, "K2", "with require_parents_complete an operator is listed only if all its parents are COMPLETED", ok_par, f, ap,
               detail=f"required: not require_parents_complete or all(parents COMPLETED); facts: {sorted(norm.show(x) for x in fs_abs)}")
        # completeness: every operator is examined (the scan is never cut short) and one that qualifies is listed
        hid = g.node_of(lp).id
        inside = {g.node_of(st).id for b in lp.body for st in ast.walk(b) if isinstance(st, ast.stmt) and id(st) in g.stmt_node}
        early = None
        for i_ in inside:
            for t_, lab in g.nodes[i_].succ:
                if lab != "exc" and t_ != hid and t_ not in inside and t_ != g.raise_.id:
                    early = g.nodes[i_]
        skip_ok_atoms = [("cmp", "notin", state_txt, a) for a in allowed_names] + [norm.mk_cmp("!=", state_txt, state_p)]

        def edge_ok(a_, b_, lab, hid=hid):
            if a_ == hid and lab == "done":
                return False
            if isinstance(lab, tuple) and lab[0] == "cond":
                at = norm.atoms_true(lab[1])
                if any(x in at for x in skip_ok_atoms):
                    return False          # state not requested: rightly skipped
                ab = _abstract_facts(at, opv)
                if ("truth", "require_parents_complete", True) in ab and ("truth", "@PARENTS_DONE", False) in ab:
                    return False          # parents required and not all done: rightly skipped
            return True
        skip = g.path_avoiding(hid, {hid, g.exit.id}, {g.node_of(ap).id}, edge_ok=edge_ok)
        ctx.ob(7, "K3", "get_ops examines every operator and lists each one that qualifies (the scan is not cut short; an operator is skipped only because its state was not "
               "requested or a required parent is unfinished)", early is None and skip is None, f, early.ast if early is not None and early.ast is not None else ap,
               construct="get_ops completeness", detail=("the loop is left early at L%d" % early.line) if early is not None else
               ("every skip is justified" if skip is None else f"unjustified skip: {g.describe_path(skip)}"))
    _check_status_init(ctx)


def _allowed_names(f, state_p: str) -> set:
    """locals that hold the requested state(s): the parameter itself, or a normalisation of it ([state], (state,), list(state),
    or a conditional expression choosing between such forms)"""
    def derived(v: ast.expr) -> bool:
        if isinstance(v, ast.IfExp):
            return derived(v.body) and derived(v.orelse)
        return norm.U(v) in (f"[{state_p}]", state_p, f"({state_p},)", f"list({state_p})")
    out = {state_p}
    for n in own_nodes(f.node):
        if isinstance(n, ast.Assign) and len(n.targets) == 1 and isinstance(n.targets[0], ast.Name) and derived(n.value):
            out.add(n.targets[0].id)
    return out


def _check_get_ops_comprehension(ctx, f, g, ret, state_p):
    """get_ops written as  return [op for op, st in self.operator_states.items() if <conditions>]"""
    lc = ret.value
    gen = lc.generators[0]
    it = norm.U(gen.iter)
    opv = state_txt = None
    if it == "self.operator_states.items()" and isinstance(gen.target, ast.Tuple) and len(gen.target.elts) == 2 and all(isinstance(x, ast.Name) for x in gen.target.elts):
        opv, state_txt = gen.target.elts[0].id, gen.target.elts[1].id
    elif it in ("self.operator_states", "self.operator_states.keys()") and isinstance(gen.target, ast.Name):
        opv, state_txt = gen.target.id, f"self.operator_states[{gen.target.id}]"
    ok_loop = opv is not None and norm.is_name(lc.elt, opv)
    ctx.ob(8, "K6", "get_ops lists operators in the insertion order of operator_states (one pass, no reordering)", ok_loop, f, ret, detail=f"comprehension over {it}")
    ctx.ob(7, "K6", "get_ops returns the list it built, unmodified", ok_loop, f, ret, detail="returns the comprehension itself")
    if not ok_loop:
        return
    fs = set(g.facts_at(ret))
    for c in gen.ifs:
        fs |= set(norm.atoms_true(norm.nnf(c)))
    allowed_names = _allowed_names(f, state_p)
    ok_state = any(norm.entails(fs, ("cmp", "in", state_txt, a)) for a in allowed_names) or norm.entails(fs, norm.mk_cmp("==", state_txt, state_p))
    ctx.ob(7, "K2", "an operator is listed only if its current state is one of the requested states", ok_state, f, ret,
           detail=f"required: {state_txt} in <{'|'.join(sorted(allowed_names))}>; conditions: {sorted(norm.show(x) for x in fs)}")
    fs_abs = _abstract_facts(fs, opv)
    goal = norm._mk("or", [("truth", "require_parents_complete", False), ("truth", "@PARENTS_DONE", True)])
    # completeness: the filter asks for nothing beyond the two criteria
    extra = []
    for c in gen.ifs:
        for a_ in norm.atoms_true(norm.nnf(c)):
            ab = _abstract_facts({a_}, opv)
            okc = any(a_ == ("cmp", "in", state_txt, n_) for n_ in allowed_names) or a_ == norm.mk_cmp("==", state_txt, state_p) \
                or norm.entails(ab, goal) and norm.entails({goal}, list(ab)[0] if len(ab) == 1 else goal)
            if not okc:
                extra.append(norm.show(a_))
    ctx.ob(7, "K3", "get_ops examines every operator and lists each one that qualifies (the filter asks for nothing beyond the requested state and, if required, finished parents)",
           not extra, f, ret, construct="get_ops completeness", detail=f"conditions beyond the two criteria: {extra}")
    ctx.ob(7, "K2", "with require_parents_complete an operator is listed only if all its parents are COMPLETED", norm.entails(fs_abs, goal), f, ret,
           detail=f"required: not require_parents_complete or all(parents COMPLETED); conditions: {sorted(norm.show(x) for x in fs_abs)}")


def _check_status_init(ctx):
    P = ctx.P
    # (8) __init__ fills operator_states by iterating the pipeline DAG
    init = P.fn(RS, "PipelineRuntimeStatus.__init__")
    ctx.touch(init)
    stores = [n for n in own_nodes(init.node) if isinstance(n, ast.Assign) and any(
        isinstance(t, ast.Subscript) and self_attr(t.value, "operator_states") for t in n.targets)]
    ok = False
    d = "no per-operator store into operator_states found in __init__"
    from ..util import single_defs as _sd
    env_ = _sd(init)
    for st in stores:
        lp = enclosing_for(st, init.node)
        if lp is not None and norm.U(lp.iter) in ("pipeline.values", "self.pipeline.values") and isinstance(lp.target, ast.Name) \
                and norm.is_name(st.targets[0].slice, lp.target.id) and state_of(norm.subst(st.value, env_)) == "PENDING":
            ok = True
            d = f"`{stmt_text(lp)}` stores PENDING for each operator in DAG-iteration order"
        else:
            d = f"store `{stmt_text(st)}` under `{stmt_text(lp) if lp else None}` (required: for operator in pipeline.values)"
    ctx.ob(8, "K6", "operator_states is filled in DAG-iteration (parents-first) order with PENDING", ok, init, stores[0] if stores else init.node,
           construct="for operator in pipeline.values: operator_states[operator] = PENDING", detail=d)
    # the table is keyed by the operator object itself: two operators are two keys only while operators compare and hash by identity
    # (a value-based __eq__/__hash__ on Operator or its base class merges look-alike siblings into one entry, and the dependency test
    # then reads the sibling's state)
    bad = value_equality_defs(P, "Operator")
    ctx.ob(8, "K1", "operators are distinguished by identity wherever they key the state table: neither Operator nor its base classes define a "
           "value-based __eq__ / __hash__", not bad, file=bad[0][0].mod.rel if bad else "eudoxia/workload/pipeline.py",
           construct="Operator identity", detail="; ".join(t for _, _, t in bad) if bad else "object identity (no __eq__/__hash__ in Operator, Node)")
    if bad:
        ctx.obs[-1].line = bad[0][0].mod.line(bad[0][1])
        ctx.obs[-1].func = bad[0][0].name


def check_dag_writers(ctx, num=9):
    """The iteration order rests on three pieces of structure that add_node keeps consistent with each other (a node without parents is a
    root; an edge is recorded at both ends): nothing else in the package changes them."""
    P = ctx.P
    from ..util import private_closure
    allowed = {"DAG.__init__", "Node.__init__"} | set(private_closure(P, P.fn(DAG, "DAG.add_node", raw=True)))
    for attr in ("roots", "children", "parents", "node_lookup"):
        for w in attr_writes(P, attr):
            if w.fn.mod.rel != DAG and attr in ("roots", "node_lookup"):
                continue      # same-named fields of unrelated classes; `children` / `parents` of an operator are the Node fields wherever they are stored to
            ok = w.fn.qual in allowed and w.fn.mod.rel == DAG
            ctx.ob(num, "K1", f"the DAG's `{attr}` is changed only by DAG.add_node (and the constructors)", ok, w.fn, w.node,
                   construct=f"write to .{attr}", detail=f"{w.how} in {w.fn.mod.rel}::{w.fn.qual}")


def check_dag(ctx):
    P = ctx.P
    check_dag_writers(ctx, 9)
    f = P.fn(DAG, "DAGIterator.__next__")
    ctx.touch(f)
    g = cfg_of(f)
    rets = [n for n in own_nodes(f.node) if isinstance(n, ast.Return) and n.value is not None]
    ctx.count_min("returns of DAGIterator.__next__", len(rets), 1)
    pops = [n for n in own_nodes(f.node) if isinstance(n, ast.Assign) and isinstance(n.value, ast.Call) and isinstance(n.value.func, ast.Attribute)
            and n.value.func.attr in ("pop", "popleft") and self_attr(n.value.func.value, "queue") and len(n.targets) == 1 and isinstance(n.targets[0], ast.Name)]
    ok = len(pops) == 1
    cur = pops[0].targets[0].id if ok else None
    fifo = ok and ((pops[0].value.func.attr == "popleft") or (pops[0].value.args and isinstance(pops[0].value.args[0], ast.Constant)))
    ctx.ob(9, "K3", "the iterator removes exactly one element from its queue per step", ok, f, pops[0] if pops else f.node,
           construct="curr = self.queue.pop(...)", detail=f"dequeue statements: {[stmt_text(p) for p in pops]}")
    if not ok:
        return
    for r in rets:
        ctx.ob(9, "K6", "the element returned is the one removed from the queue", norm.is_name(r.value, cur) and g.dominates(pops[0], r), f, r,
               detail=f"returns {norm.U(r.value)}; dequeued into {cur}")
    adds = [c for c in calls_named(f, "add") if isinstance(c.func, ast.Attribute) and self_attr(c.func.value, "returned")]
    okadd = len(adds) == 1 and len(adds[0].args) == 1 and norm.U(adds[0].args[0]) == f"{cur}.id"
    ctx.ob(9, "K3", "the dequeued node is marked as returned (by id) exactly once per step", okadd, f, adds[0] if adds else f.node,
           construct="self.returned.add(curr.id)", detail=f"{[norm.U(a) for a in adds]}")
    apps = [c for c in calls_named(f, "append") + calls_named(f, "extend") + calls_named(f, "insert") + calls_named(f, "appendleft")
            if isinstance(c.func, ast.Attribute) and self_attr(c.func.value, "queue")]
    ctx.count_min("enqueue sites in DAGIterator.__next__", len(apps), 1)
    for ap in apps:
        lp = enclosing_for(ap, f.node)
        ok = False
        d = "enqueue is not inside a loop over the children of the dequeued node"
        if ap.func.attr == "append" and lp is not None and norm.U(lp.iter) == f"{cur}.children" and isinstance(lp.target, ast.Name) \
                and ap.args and norm.is_name(ap.args[0], lp.target.id):
            ch = lp.target.id
            fs = g.facts_at(ap)
            not_ret = norm.entails(fs, ("cmp", "notin", f"{ch}.id", "self.returned"))
            all_par = False
            for a in fs:
                if a[0] == "truth" and a[2] is True:
                    try:
                        e = ast.parse(a[1], mode="eval").body
                    except SyntaxError:
                        continue
                    if all_over(e, lambda c: isinstance(c, ast.Attribute) and c.attr == "parents" and norm.is_name(c.value, ch),
                                lambda elt, v: isinstance(elt, ast.Compare) and len(elt.ops) == 1 and isinstance(elt.ops[0], ast.In)
                                and norm.U(elt.left) == f"{v}.id" and norm.U(elt.comparators[0]) == "self.returned"):
                        all_par = True
            marked_before = okadd and g.dominates(adds[0], lp) and g.path_avoiding(g.node_of(lp).id, {g.node_of(adds[0]).id}, set()) is None
            ok = not_ret and all_par and marked_before
            d = (f"child not yet returned: {not_ret}; all parents of the child returned: {all_par}; "
                 f"current node marked before the children scan: {marked_before}; facts: {sorted(norm.show(x) for x in fs)}")
        ctx.ob(9, "K2", "a child is enqueued only if it was not returned and all of its parents were (Kahn's invariant)", ok, f, ap, detail=d)
    # stop condition
    stops = [n for n in own_nodes(f.node) if isinstance(n, ast.Raise) and n.exc is not None and "StopIteration" in norm.U(n.exc)]
    oks = bool(stops) and all(norm.entails(g.facts_at(s), ("truth", "self.queue", False)) for s in stops)
    ctx.ob(9, "K2", "iteration stops only when the queue is empty", oks, f, stops[0] if stops else f.node, construct="raise StopIteration",
           detail=f"facts at raise: {[sorted(norm.show(x) for x in g.facts_at(s)) for s in stops]}")
    okpop = all(norm.entails(g.facts_at(p), ("truth", "self.queue", True)) for p in pops)
    ctx.ob(9, "K2", "the dequeue is reached only with a non-empty queue", okpop, f, pops[0], detail="guard clause `if not self.queue: raise StopIteration` precedes it" if okpop else "no emptiness guard")
    # iterator construction: starts from the roots, nothing returned yet
    init = P.fn(DAG, "DAGIterator.__init__")
    ctx.touch(init)
    qs = [n for n in own_nodes(init.node) if isinstance(n, ast.Assign) and any(self_attr(t, "queue") for t in n.targets)]
    okq = len(qs) == 1 and norm.U(qs[0].value) in ("list(self.dag.roots)", "list(dag.roots)", "deque(self.dag.roots)", "deque(dag.roots)",
                                                  "self.dag.roots[:]", "dag.roots[:]", "self.dag.roots.copy()", "dag.roots.copy()")
    ctx.ob(9, "K6", "the iterator's queue starts as a copy of the DAG's roots (in insertion order)", okq, init, qs[0] if qs else init.node,
           construct="self.queue = list(self.dag.roots)", detail=f"{[stmt_text(q) for q in qs]}")
    it = P.fn(DAG, "DAG.__iter__")
    ctx.touch(it)
    fresh = [c for c in calls_named(it, "DAGIterator")]
    rets_it = [n for n in own_nodes(it.node) if isinstance(n, ast.Return)]
    ok_it = len(fresh) == 1 and len(fresh[0].args) == 1 and norm.is_name(fresh[0].args[0], "self") and len(rets_it) >= 1
    if ok_it:
        # what is returned IS that fresh iterator (not an iterator over a stored/cached order), built on every call
        git = cfg_of(it, subst_env=False)
        pf = parent(fresh[0])
        holder = norm.U(pf.targets[0]) if isinstance(pf, ast.Assign) and len(pf.targets) == 1 else None
        ok_it = git.path_avoiding(git.entry.id, {git.exit.id}, {git.node_of(fresh[0]).id}) is None and all(
            (r.value is fresh[0]) or (holder is not None and norm.U(r.value) == holder) for r in rets_it)
        stores = [n for n in own_nodes(it.node) if isinstance(n, ast.Assign) and any(isinstance(t, ast.Attribute) for t in n.targets) and n is not pf]
        ok_it = ok_it and not stores
    ctx.ob(9, "K6", "every iteration of a DAG gets a fresh DAGIterator over that DAG", ok_it, it, fresh[0] if fresh else it.node,
           construct="DAGIterator(self)", detail=f"{[norm.U(c) for c in fresh]}")

    # (10) add_node
    a = P.fn(DAG, "DAG.add_node")
    ctx.touch(a)
    ga = cfg_of(a)
    pr = a.params()
    ctx.need(len(pr) >= 3, "DAG.add_node must take (self, node, parents)")
    node_p, par_p = pr[1], pr[2]
    ch_app = [c for c in calls_named(a, "append") if isinstance(c.func, ast.Attribute) and isinstance(c.func.value, ast.Attribute)
              and c.func.value.attr == "children"]
    pa_app = [c for c in calls_named(a, "append") if isinstance(c.func, ast.Attribute) and isinstance(c.func.value, ast.Attribute)
              and c.func.value.attr == "parents"]
    okedges = len(ch_app) == 1 and len(pa_app) == 1
    d = f"children appends: {[norm.U(c) for c in ch_app]}; parents appends: {[norm.U(c) for c in pa_app]}"
    if okedges:
        lp1, lp2 = enclosing_for(ch_app[0], a.node), enclosing_for(pa_app[0], a.node)
        okedges = lp1 is not None and lp1 is lp2 and norm.is_name(lp1.iter, par_p) and isinstance(lp1.target, ast.Name)
        if okedges:
            v = lp1.target.id
            okedges = (norm.U(ch_app[0]) == f"{v}.children.append({node_p})" and norm.U(pa_app[0]) == f"{node_p}.parents.append({v})")
            # both executed in every iteration
            hid = ga.node_of(lp1).id
            for c in (ch_app[0], pa_app[0]):
                if ga.path_avoiding(hid, {hid, ga.exit.id}, {ga.node_of(c).id}, edge_ok=lambda x, y, lab, hid=hid: not (x == hid and lab == "done")):
                    okedges = False
                    d += "; an edge direction can be skipped in an iteration"
            member = norm.entails(ga.facts_at(ch_app[0]), ("cmp", "in", f"{v}.id", "self.node_ids")) and \
                norm.entails(ga.facts_at(pa_app[0]), ("cmp", "in", f"{v}.id", "self.node_ids"))
            ctx.ob(10, "K2", "an edge is added only from a parent that is already a member of the DAG (asserted first)", member, a, ch_app[0],
                   detail=f"facts at the edge insertion: {sorted(norm.show(x) for x in ga.facts_at(ch_app[0]))}")
    ctx.ob(10, "K3", "add_node records each edge in both directions (parent.children and node.parents) for every given parent", okedges, a,
           ch_app[0] if ch_app else a.node, construct="parent.children.append(node); node.parents.append(parent)", detail=d)
    roots = [c for c in calls_named(a, "append") if isinstance(c.func, ast.Attribute) and self_attr(c.func.value, "roots")]
    okr = len(roots) == 1 and norm.U(roots[0].args[0]) == node_p and norm.entails(ga.facts_at(roots[0]), ("truth", par_p, False))
    # and conversely: whenever parents is falsy the root append is reached
    if okr:
        rid = ga.node_of(roots[0]).id
        IN = ga.facts(blocked={rid})
        ex = IN.get(ga.exit.id)
        if ex is not None and not norm.entails(ex, ("truth", par_p, True)):
            okr = False
    ctx.ob(10, "K2", "a node is recorded as a root exactly when it is added without parents", okr, a, roots[0] if roots else a.node,
           construct="self.roots.append(node)", detail=f"root appends: {[norm.U(c) for c in roots]}")
    ids = [c for c in calls_named(a, "append") if isinstance(c.func, ast.Attribute) and self_attr(c.func.value, "node_ids")]
    lk = [n for n in own_nodes(a.node) if isinstance(n, ast.Assign) and any(isinstance(t, ast.Subscript) and self_attr(t.value, "node_lookup") for t in n.targets)]
    okm = len(ids) == 1 and norm.U(ids[0].args[0]) == f"{node_p}.id" and len(lk) == 1 and norm.U(lk[0].targets[0].slice) == f"{node_p}.id" and norm.U(lk[0].value) == node_p
    if okm:
        for x in (ids[0], lk[0]):
            if ga.path_avoiding(ga.entry.id, {ga.exit.id}, {ga.node_of(x).id}):
                okm = False
    dup = norm.entails(ga.facts_at(ids[0]), ("cmp", "notin", f"{node_p}.id", "self.node_ids")) if ids else False
    ctx.ob(10, "K3", "every added node is registered once in node_ids and node_lookup, after a duplicate check", okm and dup, a,
           ids[0] if ids else a.node, construct="self.node_ids.append(node.id); self.node_lookup[node.id] = node",
           detail=f"registered on every path: {okm}; duplicate asserted absent: {dup}")


ITER_CONSUMERS = {"all", "any", "list", "tuple", "set", "frozenset", "sorted", "sum", "map", "filter", "zip", "enumerate", "fromkeys", "max", "min", "iter", "next", "reversed"}


def _consumptions(f, name: str):
    """(node, materialising) for every place that iterates the value of local `name` (a one-shot iterable is empty afterwards);
    materialising = the statement re-binds `name` to a list/tuple built from it."""
    out = []
    for n in own_nodes(f.node):
        site = None
        if isinstance(n, (ast.For, ast.AsyncFor)) and norm.is_name(n.iter, name):
            site = n
        elif isinstance(n, ast.comprehension) and norm.is_name(n.iter, name):
            site = parent(n)
        elif isinstance(n, ast.Call) and norm.call_name(n) in ITER_CONSUMERS and any(norm.is_name(a, name) for a in n.args):
            site = n
        elif isinstance(n, ast.Starred) and norm.is_name(n.value, name):
            site = n
        if site is None:
            continue
        st = site
        while not isinstance(st, ast.stmt):
            st = parent(st)
        mat = isinstance(st, ast.Assign) and len(st.targets) == 1 and norm.is_name(st.targets[0], name) and isinstance(st.value, ast.Call) \
            and norm.call_name(st.value) in ("list", "tuple") and any(x is site or x is n for x in ast.walk(st.value))
        out.append((st, site, mat))
    return out


def check_new_operator(ctx):
    """Pipeline.new_operator: the operator is created for this pipeline and registered in the DAG under exactly the parents the caller
    named — the parents argument reaches add_node intact (it may be any iterable: iterating it before it is handed on, or before it is
    materialised, leaves nothing for add_node)."""
    P = ctx.P
    f = P.fn(PL, "Pipeline.new_operator")
    ctx.touch(f)
    g = cfg_of(f, subst_env=False)
    pr = f.params()
    ctx.need(len(pr) >= 2, "Pipeline.new_operator must take (self, parents)")
    par_p = pr[1]
    adds = [c for c in calls_named(f, "add_node") if isinstance(c.func, ast.Attribute)]
    ctx.count_min("add_node call sites in Pipeline.new_operator", len(adds), 1)
    c = adds[0]
    opn = c.args[0] if c.args else None
    env = {}
    if isinstance(opn, ast.Name):
        ds = [n for n in own_nodes(f.node) if isinstance(n, ast.Assign) and any(norm.is_name(t, opn.id) for t in n.targets)]
        if len(ds) == 1 and g.dominates(ds[0], c):
            env = {opn.id: ds[0].value}
    okop = opn is not None and norm.U(norm.subst(opn, env)) == f"Operator({pr[0]})" and norm.U(c.func.value) == f"{pr[0]}.values" and len(adds) == 1 \
        and g.path_avoiding(g.entry.id, {g.exit.id}, {g.node_of(c).id}) is None
    ctx.ob(10, "K6", "new_operator creates an operator of this pipeline and registers it in this pipeline's DAG on every path", okop, f, c,
           detail=f"node argument resolves to {norm.U(norm.subst(opn, env)) if opn is not None else None}; receiver {norm.U(c.func.value)}")
    pa = c.args[1] if len(c.args) >= 2 else norm.kwarg(c, "parents")
    okpa = pa is not None and norm.is_name(pa, par_p)
    cons = _consumptions(f, par_p)
    early = []
    for st, site, mat in cons:
        if g.node_of(st).id == g.node_of(c).id:
            continue
        if g.path_avoiding(g.node_of(st).id, {g.node_of(c).id}, set()) is None:
            continue     # not on a way to the registration
        if mat:
            # materialised first: fine if no *earlier* consumption lies before it
            continue
        # a consumption before the hand-over: harmless only if a materialisation dominates it
        if not any(m and g.dominates(s2, st) for s2, _x, m in cons):
            early.append(site)
    ctx.ob(10, "K6", "the parents named by the caller reach add_node intact (not iterated away before they are handed on or materialised)", okpa and not early, f,
           early[0] if early else c, construct="add_node(operator, parents)",
           detail=f"parents argument: {norm.U(pa) if pa is not None else None}; earlier iterations of `{par_p}`: {[norm.U(e)[:60] for e in early]}")


def run(ctx):
    check_new_operator(ctx)
    check_check_transition(ctx)
    c02.check_transition_fn(ctx, 3)
    ob_errors_propagate(ctx, 3, "a decision that would start an operator with an unfinished parent is rejected with an error")
    c02.check_writers(ctx, 4)
    check_operator_forward(ctx)
    check_running_sites(ctx)
    check_get_ops(ctx)
    check_dag(ctx)
