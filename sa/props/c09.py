"""C09 — every accepted assignment becomes exactly one container with exactly one outcome."""
from __future__ import annotations

import ast
from typing import List, Optional, Set

from .. import norm
from ..model import own_nodes, stmt_text, parent
from ..util import attr_writes, cfg_of, calls_named, package_calls
from .common import *
from . import pool, c02

EXPLANATION = (
    "Static decision of the structural clauses of C09.  (1) Exhaustive routing in Executor.run_one_tick: a validation that "
    "asserts 0 <= pool_id < num_pools for every element of both command lists dominates the routing loop, which hands every "
    "pool exactly the commands whose pool_id equals its index (identity filter) and collects every pool's results.  (2) one "
    "Container per element of the assignments list, appended to active once (move new->active); each pool owns its three holder lists "
    "(fresh in __init__, none bound at class level).  (3) the move active->gone "
    "creates exactly one ExecutionResult, appended to the list that run_one_tick returns unfiltered; no other move creates a "
    "result.  (4) the result's fields are the container's own (ops, cpu, ram, priority, pool, id, error).  (5) success <=> no "
    "error: num_completed counts iff error is None, failed() == (error is not None), Container.error is written only by "
    "_mark_completed, kill() requires a non-empty error and a live container, and the error-free _mark_completed() is reached "
    "only when the last operator completed.  (6) the operator-count validation precedes container creation.  By induction over "
    "the move table: assignments = successes + failures + suspended + live.")
UNDECIDED = "no command sequence is executed; run lengths and simultaneous events are covered by the per-tick structure, not enumerated"
ASSUMPTIONS = COMMON_ASSUMPTIONS


def _pool_id_bounds(g, loop: ast.For, var: str):
    lo = g.holds_after_iteration(loop, ("cmp", "<=", "0", f"{var}.pool_id"))
    hi = g.holds_after_iteration(loop, ("cmp", "<", f"{var}.pool_id", "self.num_pools"))
    return lo, hi


def _covered_params(it: ast.expr, params: Set[str]) -> Set[str]:
    """Which of the command-list parameters does the iterable `it` enumerate completely?"""
    out = set()
    if isinstance(it, ast.Name) and it.id in params:
        return {it.id}
    if isinstance(it, (ast.List, ast.Tuple)):
        for e in it.elts:
            if isinstance(e, ast.Starred) and isinstance(e.value, ast.Name) and e.value.id in params:
                out.add(e.value.id)
        return out
    if isinstance(it, ast.BinOp) and isinstance(it.op, ast.Add):
        return _covered_params(it.left, params) | _covered_params(it.right, params)
    if isinstance(it, ast.Call):
        fn = norm.call_name(it)
        if fn in ("chain", "list", "tuple", "iter"):
            for a in it.args:
                out |= _covered_params(a, params)
        return out
    return out


def check_routing(ctx, num=1):
    P = ctx.P
    f = P.fn(EX, "Executor.run_one_tick")
    ctx.touch(f)
    params = f.params()
    ctx.need(len(params) >= 3, "Executor.run_one_tick must take (self, suspensions, assignments)")
    sus_p, asg_p = params[1], params[2]
    g = cfg_of(f, subst_env=False)
    # the routing call(s)
    route_calls = [c for c in calls_named(f, "run_one_tick") if isinstance(c.func, ast.Attribute)]
    ctx.count_min("pool.run_one_tick call sites in Executor.run_one_tick", len(route_calls), 1)
    # validation loops
    covered_lo: Set[str] = set()
    covered_hi: Set[str] = set()
    vloops = []
    for lp in (n for n in own_nodes(f.node) if isinstance(n, ast.For) and isinstance(n.target, ast.Name)):
        cov = _covered_params(lp.iter, {sus_p, asg_p})
        if not cov:
            continue
        lo, hi = _pool_id_bounds(g, lp, lp.target.id)
        if not (lo or hi):
            continue
        # must be on every path and precede all routing
        byp = g.path_avoiding(g.entry.id, {g.node_of(c).id for c in route_calls}, {g.node_of(lp).id})
        if byp is not None:
            continue
        vloops.append(lp)
        if lo:
            covered_lo |= cov
        if hi:
            covered_hi |= cov
    # all()-form asserts
    for a in (n for n in own_nodes(f.node) if isinstance(n, ast.Assert)):
        t = a.test
        if isinstance(t, ast.Call) and norm.is_name(t.func, "all") and t.args and isinstance(t.args[0], (ast.GeneratorExp, ast.ListComp)):
            ge = t.args[0]
            if len(ge.generators) == 1 and not ge.generators[0].ifs and isinstance(ge.generators[0].target, ast.Name):
                v = ge.generators[0].target.id
                cov = _covered_params(ge.generators[0].iter, {sus_p, asg_p})
                at = norm.atoms_true(norm.nnf(ge.elt))
                if g.path_avoiding(g.entry.id, {g.node_of(c).id for c in route_calls}, {g.node_of(a).id}) is None:
                    if ("cmp", "<=", "0", f"{v}.pool_id") in at:
                        covered_lo |= cov
                    if ("cmp", "<", f"{v}.pool_id", "self.num_pools") in at:
                        covered_hi |= cov
                    vloops.append(a)
    for pname, what in ((sus_p, "suspension"), (asg_p, "assignment")):
        ok = pname in covered_lo and pname in covered_hi
        ctx.ob(num, "K2", f"every {what} command is rejected unless 0 <= pool_id < num_pools, before any command is routed", ok, f,
               vloops[0] if vloops else f.node, construct=f"validation of {what}.pool_id",
               detail=f"lower bound established for: {sorted(covered_lo)}; upper bound for: {sorted(covered_hi)}; "
                      f"validation constructs at lines {[v.lineno for v in vloops]} dominate the routing")
    # routing by identity filter
    for c in route_calls:
        lp = enclosing_for(c, f.node)
        idx = None
        ok_loop = False
        if lp is not None and isinstance(lp.target, ast.Name) and norm.U(lp.iter) in ("range(self.num_pools)", "range(len(self.pools))"):
            idx, ok_loop = lp.target.id, True
        recv_ok = ok_loop and norm.U(c.func.value) == f"self.pools[{idx}]"
        if lp is not None and isinstance(lp.target, ast.Tuple) and len(lp.target.elts) == 2 and all(isinstance(x, ast.Name) for x in lp.target.elts) \
                and norm.U(lp.iter) == "enumerate(self.pools)":
            # for i, pool in enumerate(self.pools): pool.run_one_tick(..)   — the same pairs (index, self.pools[index]), all of them, in order
            idx, ok_loop = lp.target.elts[0].id, True
            recv_ok = norm.U(c.func.value) in (lp.target.elts[1].id, f"self.pools[{idx}]") and not any(
                isinstance(x, ast.Name) and x.id in (idx, lp.target.elts[1].id) and isinstance(x.ctx, ast.Store) for b in lp.body for x in ast.walk(b))
        ctx.ob(num, "K6", "commands are routed by a loop over all pool indices to self.pools[index]", recv_ok, f, c,
               detail=f"loop: {stmt_text(lp) if lp else None}; receiver: {norm.U(c.func.value)}")
        if not recv_ok:
            continue
        from ..util import single_defs
        env = single_defs(f)
        for argi, pname, what in ((0, sus_p, "suspensions"), (1, asg_p, "assignments")):
            a = c.args[argi] if argi < len(c.args) else None
            a2 = norm.subst(a, env) if a is not None else None
            ok = False
            d = f"argument: {norm.U(a) if a is not None else None}"
            if isinstance(a2, ast.ListComp) and len(a2.generators) == 1:
                gen = a2.generators[0]
                if isinstance(gen.target, ast.Name) and norm.is_name(a2.elt, gen.target.id) and norm.is_name(gen.iter, pname) and len(gen.ifs) == 1:
                    cond = norm.nnf(gen.ifs[0])
                    ok = cond == norm.mk_cmp("==", f"{gen.target.id}.pool_id", idx)
                    d = f"filter: {norm.U(a2)}"
            ctx.ob(num, "K6", f"pool i receives exactly the {what} whose pool_id == i (identity filter over the whole list)", ok, f, c,
                   construct=f"pool_{what} filter", detail=d)
        # results of every pool are collected
        p_ = parent(c)
        res_name = None
        if isinstance(p_, ast.Assign) and len(p_.targets) == 1 and isinstance(p_.targets[0], ast.Name):
            res_name = p_.targets[0].id
        ext = [e for e in calls_named(f, "extend") if isinstance(e.func, ast.Attribute) and isinstance(e.func.value, ast.Name) and e.args
               and (norm.is_name(e.args[0], res_name) if res_name else e.args[0] is c)]
        ok = len(ext) == 1 and enclosing_for(ext[0], f.node) is lp
        acc = ext[0].func.value.id if ok else None
        if ok:
            hid = g.node_of(lp).id
            if g.path_avoiding(hid, {hid, g.exit.id}, {g.node_of(ext[0]).id}, edge_ok=lambda a, b, lab, hid=hid: not (a == hid and lab == "done")):
                ok = False
        rets = [r for r in own_nodes(f.node) if isinstance(r, ast.Return)]
        ok_ret = ok and len(rets) >= 1 and all(r.value is not None and norm.is_name(r.value, acc) for r in rets)
        ctx.ob(num, "K6", "the executor returns the concatenation of every pool's results, unfiltered", ok_ret, f, ext[0] if ext else c,
               construct="results.extend(pool_results); return results", detail=f"extend sites: {[norm.U(e) for e in ext]}; returns: {[stmt_text(r) for r in rets]}")


def check_every_pool_ticked(ctx, num=1):
    """Every pool runs its tick in every executor tick, whether or not it received a command: containers that are running or being
    written out make progress only there."""
    P = ctx.P
    f = P.fn(EX, "Executor.run_one_tick")
    ctx.touch(f)
    g = cfg_of(f, subst_env=False)
    route_calls = [c for c in calls_named(f, "run_one_tick") if isinstance(c.func, ast.Attribute)]
    ctx.count_min("pool.run_one_tick call sites in Executor.run_one_tick", len(route_calls), 1)
    for c in route_calls:
        lp = enclosing_for(c, f.node)
        ok = lp is not None and norm.U(lp.iter) in ("range(self.num_pools)", "range(len(self.pools))", "self.pools", "enumerate(self.pools)")
        d = f"loop: {stmt_text(lp) if lp else None}"
        if ok:
            hid = g.node_of(lp).id
            skip = g.path_avoiding(hid, {hid, g.exit.id}, {g.node_of(c).id}, edge_ok=lambda a, b, lab, hid=hid: not (a == hid and lab == "done"))
            byp = g.path_avoiding(g.entry.id, {g.exit.id}, {hid})
            early = g.path_avoiding(g.node_of(c).id, {g.exit.id}, {hid})    # leaving from inside the loop body without returning to the header
            ok = skip is None and byp is None and early is None
            d += f"; a pool can be skipped: {skip is not None}; the loop can be bypassed: {byp is not None}; the loop can be left early: {early is not None}"
        ctx.ob(num, "K3", "every pool runs its tick in every executor tick (with or without commands for it)", ok, f, c, construct="for every pool: pool.run_one_tick(...)", detail=d)


def check_container_ids(ctx, num=2):
    """Results, Suspend commands and the schedulers' tables name a container by its id alone: two containers of one executor must never
    share an id.  The id is formed in the constructor from one process-wide counter that is stepped for every container built."""
    P = ctx.P
    ci = P.fn(CT, "Container.__init__")
    ctx.touch(ci)
    g = cfg_of(ci, subst_env=False)
    ws = [w for w in attr_writes(P, "container_id", include_mutation=False) if w.fn.cls == "Container" or (w.fn.mod.rel in (CT, RP) and norm.U(w.target).split(".")[0] in ("c", "container", "self") and w.fn.cls in ("Container", "ResourcePool"))]
    inits = [w for w in ws if same_fn(w.fn, ci)]
    ok = len(inits) == 1 and len(ws) == 1
    d = f"stores of container_id: {[repr(w) for w in ws]}"
    if ok:
        st = inits[0].node
        v = st.value if isinstance(st, (ast.Assign, ast.AnnAssign)) else None
        from ..util import single_defs
        v2 = norm.subst(v, single_defs(ci)) if v is not None else None
        parts = [x for x in v2.values] if isinstance(v2, ast.JoinedStr) else []
        fv = [x for x in parts if isinstance(x, ast.FormattedValue)]
        okform = isinstance(v2, ast.JoinedStr) and len(fv) == 1 and norm.U(fv[0].value) == "Container.next_container_num" and fv[0] is parts[-1]
        incs = [n for n in own_nodes(ci.node) if isinstance(n, ast.AugAssign) and norm.U(n.target) == "Container.next_container_num"]
        okinc = len(incs) == 1 and isinstance(incs[0].op, ast.Add) and isinstance(incs[0].value, ast.Constant) and incs[0].value.value == 1 \
            and g.path_avoiding(g.entry.id, {g.exit.id}, {g.node_of(incs[0]).id}) is None and g.path_avoiding(g.entry.id, {g.exit.id}, {g.node_of(st).id}) is None \
            and g.dominates(st, incs[0])
        others = [w for w in attr_writes(P, "next_container_num") if not same_fn(w.fn, ci) and w.fn.qual != "<module>"]
        ok = okform and okinc and not others
        d = (f"id = {norm.U(v2) if v2 is not None else None} (one counter value, last in the text): {okform}; counter += 1 for every container, after the id is formed: {okinc}; "
             f"other writers of the counter: {[repr(w) for w in others]}")
    ctx.ob(num, "K3", "every container gets an id of its own: formed in the constructor from one process-wide counter that is stepped once per container", ok, ci,
           inits[0].node if inits else ci.node, construct="container_id = f'c{Container.next_container_num}'; counter += 1", detail=d)


def check_results(ctx, num=3):
    P = ctx.P
    pa = pool.pool_analysis(P)
    f = pa.f
    g = pa.g
    ers = calls_named(f, "ExecutionResult")
    ctx.count_min("ExecutionResult( sites in ResourcePool.run_one_tick", len(ers), 1)
    gone = pa.moves_of("active->gone")
    rets = [r for r in own_nodes(f.node) if isinstance(r, ast.Return)]
    ret_names = {norm.U(r.value) if r.value is not None else None for r in rets}
    res_list = None
    named = [r for r in rets if r.value is not None and isinstance(r.value, ast.Name)]
    empties = [r for r in rets if r.value is not None and isinstance(r.value, ast.List) and not r.value.elts]
    if named and len({r.value.id for r in named}) == 1 and len(named) + len(empties) == len(rets):
        # an early `return []` is acceptable only where no container can end: nothing was active
        if all(norm.entails(g.facts_at(r), ("truth", "self.active_containers", False)) for r in empties):
            res_list = named[0].value.id
    ctx.ob(num, "K6", "run_one_tick returns its result list itself (unfiltered)", res_list is not None, f, rets[0] if rets else f.node,
           construct="return results", detail=f"returned: {sorted(map(str, ret_names))}")
    for er in ers:
        s = pool.stmt_of(er)
        blk = pool.block_of(s)
        mv = [m for m in gone if any(m.anchor is x for x in blk)]
        ok = len(mv) == 1
        d = "the result is created in the block of the active->gone move" if ok else "the result is not created together with the active->gone move"
        if ok and res_list:
            # bound to a name and appended once to the returned list in the same block (or appended directly)
            nm = None
            if isinstance(s, ast.Assign) and len(s.targets) == 1 and isinstance(s.targets[0], ast.Name):
                nm = s.targets[0].id
            apps = [c for c in calls_named(f, "append") if isinstance(c.func, ast.Attribute) and norm.is_name(c.func.value, res_list) and c.args
                    and (norm.is_name(c.args[0], nm) if nm else c.args[0] is er) and any(pool.stmt_of(c) is x for x in blk)]
            ok = len(apps) == 1
            d += f"; appended to {res_list}: {len(apps)} time(s) in that block"
        ctx.ob(num, "K4", "a container leaving the active list by completion/kill yields exactly one ExecutionResult, delivered in that tick", ok, f, er, detail=d)
    for mv in gone:
        blk = pool.block_of(mv.anchor)
        n = [er for er in ers if any(pool.stmt_of(er) is x for x in blk)]
        ctx.ob(num, "K4", "the move active->gone creates exactly one result", len(n) == 1, f, mv.anchor, construct="active->gone: one ExecutionResult",
               detail=f"{len(n)} result construction(s) in the move's block")
    # other mutations of the result list
    if res_list:
        muts = [c for c in own_nodes(f.node) if isinstance(c, ast.Call) and isinstance(c.func, ast.Attribute) and norm.is_name(c.func.value, res_list)]
        bad = [c for c in muts if c.func.attr != "append"]
        inits = [n for n in own_nodes(f.node) if isinstance(n, ast.Assign) and any(norm.is_name(t, res_list) for t in n.targets)]
        ok = not bad and len(inits) == 1 and isinstance(inits[0].value, ast.List) and not inits[0].value.elts
        ctx.ob(num, "K6", "the result list starts empty and is only appended to", ok, f, bad[0] if bad else (inits[0] if inits else f.node),
               construct="results = []; results.append(...)", detail=f"other operations: {[norm.U(b) for b in bad]}; initialisations: {[stmt_text(i) for i in inits]}")
    # (4) fields
    want = {"ops": ["{c}.operators", "{c}.assignment.ops"], "cpu": ["{c}.assignment.cpu"], "ram": ["{c}.assignment.ram"],
            "priority": ["{c}.priority", "{c}.assignment.priority"], "pool_id": ["{c}.pool_id", "self.pool_id", "{c}.pool.pool_id"],
            "container_id": ["{c}.container_id"], "error": ["{c}.error"]}
    pos = ["ops", "cpu", "ram", "priority", "pool_id", "container_id", "error"]
    for er in ers:
        blk = pool.block_of(pool.stmt_of(er))
        mv = [m for m in gone if any(m.anchor is x for x in blk)]
        cv = mv[0].var if mv else "c"
        for i, k in enumerate(pos):
            v = norm.kwarg(er, k, i)
            ok = v is not None and norm.U(v) in [w.format(c=cv) for w in want[k]]
            ctx.ob(4, "K6", f"result.{k} is the ending container's own {k}", ok, f, er, construct=f"ExecutionResult({k}=...)",
                   detail=f"{k}={norm.U(v) if v is not None else None}")
    # ExecutionResult.__init__ stores its arguments field-wise
    ei = P.fn(AS, "ExecutionResult.__init__")
    ctx.touch(ei)
    for k in pos:
        st = [n for n in own_nodes(ei.node) if isinstance(n, ast.Assign) and any(self_attr(t, k) for t in n.targets)]
        ctx.ob(4, "K6", f"ExecutionResult.{k} stores the constructor argument", len(st) == 1 and norm.U(st[0].value) == k, ei, st[0] if st else ei.node,
               construct=f"self.{k} = {k}", detail=f"{[stmt_text(s) for s in st]}")
    # Container.priority / pool_id / operators are views of the assignment / pool
    for prop_, want_ in (("operators", "self.assignment.ops"), ("priority", "self.assignment.priority"), ("pool_id", "self.pool.pool_id")):
        pf = P.fn(CT, f"Container.{prop_}")
        ctx.touch(pf)
        rs = [r for r in own_nodes(pf.node) if isinstance(r, ast.Return)]
        ok = len(rs) == 1 and rs[0].value is not None and norm.U(rs[0].value) == want_
        ctx.ob(4, "K6", f"Container.{prop_} is {want_}", ok, pf, rs[0] if rs else pf.node, detail=f"{[stmt_text(r) for r in rs]}")


def check_success_iff_no_error(ctx, num=5):
    P = ctx.P
    pa = pool.pool_analysis(P)
    f = pa.f
    g = pa.g
    incs = [n for n in own_nodes(f.node) if isinstance(n, ast.AugAssign) and self_attr(n.target, "num_completed")]
    ctx.count_min("num_completed updates", len(incs), 1)
    gone = pa.moves_of("active->gone")
    for n in incs:
        ok = isinstance(n.op, ast.Add) and isinstance(n.value, ast.Constant) and n.value.value == 1
        mv = gone[0] if gone else None
        cv = mv.var if mv else "c"
        fs = g.facts_at(n)
        in_move = mv is not None and norm.entails(fs, ("truth", f"{cv}.is_completed()", True)) and enclosing_for(n, f.node) is mv.src_loop
        req = ("cmp", "is", f"{cv}.error", "None")
        guarded = norm.entails(fs, req)
        # and every error-free completed container is counted
        comp = None
        if in_move and guarded:
            hid = g.node_of(mv.src_loop).id
            nreq1, nreq2 = norm.neg(req), ("truth", f"{cv}.is_completed()", False)

            def edge_ok(a, b, lab, hid=hid):
                if a == hid and lab == "done":
                    return False
                if isinstance(lab, tuple) and lab[0] == "cond":
                    at = norm.atoms_true(lab[1])
                    if nreq1 in at or nreq2 in at:
                        return False
                return True
            comp = g.path_avoiding(hid, {hid, g.exit.id}, {g.node_of(n).id}, edge_ok=edge_ok)
        ctx.ob(num, "K2", "num_completed is incremented by one exactly for containers that end without an error", ok and in_move and guarded and comp is None,
               f, n, detail=f"+1: {ok}; inside the active->gone collection: {in_move}; guarded by `{cv}.error is None`: {guarded}; "
                            f"every error-free ending container counted: {comp is None}")
    others = [w for w in attr_writes(P, "num_completed") if w.fn.qual != "ResourcePool.__init__" and not (w.fn.mod.rel == RP and w.fn.qual in pa.closure)]
    for w in others:
        ctx.ob(num, "K1", "num_completed is written only at construction and in the completion sweep", False, w.fn, w.node, detail=repr(w))
    fl = P.fn(AS, "ExecutionResult.failed")
    ctx.touch(fl)
    rs = [r for r in own_nodes(fl.node) if isinstance(r, ast.Return)]
    ok = len(rs) == 1 and rs[0].value is not None and norm.nnf(rs[0].value) == ("cmp", "isnot", "self.error", "None")
    ctx.ob(num, "K5", "ExecutionResult.failed() is exactly `error is not None`", ok, fl, rs[0] if rs else fl.node, detail=f"{[stmt_text(r) for r in rs]}")
    # Container.error writers
    mc = P.fn(CT, "Container._mark_completed")
    ci = P.fn(CT, "Container.__init__")
    ctx.touch(mc)
    for w in attr_writes(P, "error", include_mutation=False):
        if w.fn.cls != "Container":
            # ExecutionResult.error / RetryStats: different classes
            if w.fn.qual in ("ExecutionResult.__init__",):
                continue
            if not norm.U(w.target).startswith(("c.", "container.", "victim.")):
                continue
        if same_fn(w.fn, ci):
            ok = isinstance(w.node, (ast.Assign, ast.AnnAssign)) and isinstance(w.node.value, ast.Constant) and w.node.value.value is None
            ctx.ob(num, "K1", "a new container has no error", ok, w.fn, w.node, detail=stmt_text(w.node))
        elif same_fn(w.fn, mc):
            p0 = mc.params()
            ok = isinstance(w.node, ast.Assign) and len(p0) >= 2 and norm.U(w.node.value) == p0[1]
            ctx.ob(num, "K1", "_mark_completed records the error it was given", ok, w.fn, w.node, detail=stmt_text(w.node))
        else:
            ctx.ob(num, "K1", "Container.error is written only by __init__ and _mark_completed", False, w.fn, w.node, detail=repr(w))
    # _mark_completed call sites
    kill = P.fn(CT, "Container.kill")
    gen = P.fn(CT, "Container._tick_generator")
    ctx.touch(kill)
    mcalls = package_calls(P, "_mark_completed")
    ctx.count_min("error-free _mark_completed() calls in the tick generator (a container whose last operator completed must end)",
                  len([c for fn_, c in mcalls if same_fn(fn_, gen) and not c.args and not c.keywords]), 1)
    ctx.count_min("_mark_completed(error) calls in Container.kill", len([c for fn_, c in mcalls if same_fn(fn_, kill)]), 1)
    for fn_, c in mcalls:
        err = norm.kwarg(c, "error", 0)
        if same_fn(fn_, kill):
            kp = kill.params()
            ok = err is not None and len(kp) >= 2 and norm.is_name(err, kp[1])
            gk = cfg_of(kill, subst_env=False)
            nonempty = norm.entails(gk.facts_at(c), ("truth", kp[1], True)) if ok else False
            alive = norm.entails(gk.facts_at(c), ("truth", "self._completed", False))
            ctx.ob(num, "K2", "kill() marks the container failed with the given, non-empty error, and only if it has not ended yet", ok and nonempty and alive,
                   fn_, c, detail=f"error argument: {norm.U(err) if err is not None else None}; asserted non-empty: {nonempty}; asserted not completed: {alive}")
        elif same_fn(fn_, gen):
            ok = err is None or (isinstance(err, ast.Constant) and err.value is None)
            gg = cfg_of(gen, subst_env=False)
            # only right after the COMPLETED transition of the last operator
            lastop = False
            for a in gg.facts_at(c):
                if a[0] == "cmp" and a[1] == "==" and "len(self.operators) - 1" in (a[2], a[3]):
                    lastop = True
            tcs = [t for t, r, s in transition_calls(gen) if s == "COMPLETED"]
            after = any(gg.dominates(t, c) and enclosing_for(t, gen.node) is enclosing_for(c, gen.node) for t in tcs)
            ctx.ob(num, "K2", "the error-free end of a container is reached only when its last operator has just completed", ok and lastop and after, fn_, c,
                   detail=f"no error argument: {ok}; guarded by op_idx == len(self.operators) - 1: {lastop}; dominated by the COMPLETED transition in the same loop: {after}")
        else:
            ctx.ob(num, "K1", "_mark_completed is called only from the tick generator (success) and kill() (failure)", False, fn_, c,
                   detail=f"called in {fn_.mod.rel}::{fn_.qual}")
    # _completed writers
    cw = attr_writes(P, "_completed")
    for w in cw:
        who = w.fn.qual
        ok = who in ("Container.__init__", "Container._mark_completed")
        ctx.ob(num, "K1", "the ended flag of a container is set only by _mark_completed", ok, w.fn, w.node, detail=who)
    # ... and _mark_completed does record the outcome: it stores the error it was given and sets the ended flag
    ew = [w for w in attr_writes(P, "error", include_mutation=False) if same_fn(w.fn, mc)]
    ctx.ob(num, "K6", "_mark_completed stores the error it was given (the outcome of the container is recorded)", len(ew) >= 1, mc, ew[0].node if ew else mc.node,
           construct="self.error = error in _mark_completed", detail=f"{[stmt_text(w.node) for w in ew]}")
    sw = [w for w in cw if same_fn(w.fn, mc) and isinstance(w.node, ast.Assign) and isinstance(w.node.value, ast.Constant) and w.node.value.value is True]
    ctx.ob(num, "K6", "_mark_completed sets the ended flag (is_completed() becomes true, the pool collects the container)", len(sw) >= 1, mc, sw[0].node if sw else mc.node,
           construct="self._completed = True in _mark_completed", detail=f"{[stmt_text(w.node) for w in cw if same_fn(w.fn, mc)]}")
    ic = P.fn(CT, "Container.is_completed")
    rs2 = [r for r in own_nodes(ic.node) if isinstance(r, ast.Return)]
    ctx.ob(num, "K5", "is_completed() is exactly the ended flag", len(rs2) == 1 and rs2[0].value is not None and norm.U(rs2[0].value) == "self._completed", ic, rs2[0] if rs2 else ic.node,
           detail=f"{[stmt_text(r) for r in rs2]}")


def check_validation_order(ctx, num=6):
    P = ctx.P
    pa = pool.pool_analysis(P)
    f, g = pa.f, pa.g
    for mv in pa.moves_of("new->active"):
        a = norm.U(mv.assignment) if mv.assignment is not None else "a"
        fs_goal_multi = ("truth", f"{a}.ops", True)   # normal form of len(a.ops) >= 1
        fs_goal_single = norm.mk_cmp("==", "1", f"len({a}.ops)")
        goal = norm._mk("or", [norm._mk("and", [("truth", "self.multi_operator_containers", True), fs_goal_multi]),
                              norm._mk("and", [("truth", "self.multi_operator_containers", False), fs_goal_single])])
        # path-sensitive: on the branch with the flag true, >=1; otherwise ==1
        ok = g.holds_at(mv.ctor, norm._mk("or", [fs_goal_multi, fs_goal_single]))
        ok_single = g.holds_at(mv.ctor, norm._mk("or", [("truth", "self.multi_operator_containers", True), fs_goal_single]))
        ctx.ob(num, "K2", "the operator-count rule of the container mode is asserted before the container is created "
               "(exactly one operator unless multi_operator_containers)", ok and ok_single, f, mv.ctor,
               detail=f"len(ops) >= 1 or == 1 on every path: {ok}; single-operator mode implies == 1: {ok_single}")


def run(ctx):
    check_routing(ctx, 1)
    check_every_pool_ticked(ctx, 1)
    c02.check_container_factory(ctx, 2)
    check_container_ids(ctx, 2)
    pool.ob_moves_classified(ctx, 2)
    pool.ob_own_state(ctx, 2)
    pool.ob_deltas(ctx, 3, amounts=False, conditions=True)
    pool.ob_phases(ctx, 3)
    check_results(ctx, 3)
    check_success_iff_no_error(ctx, 5)
    # "success exactly when every operator completed": the generator marks the container ended right after the COMPLETED transition of the
    # last operator, and an operator is COMPLETED exactly when its tick count-down reaches 0 (C05#6/#7)
    from . import c05
    sh_ = c05.check_plan(Renumber(ctx, {1: 5, 2: 5, 5: 5, 6: 5, 7: 5}))
    c05.check_tick_body(Renumber(ctx, {4: 5, 5: 5, 6: 5, 7: 5}), sh_)
    check_validation_order(ctx, 6)
    ob_errors_propagate(ctx, 1, "a command for an unknown pool / a malformed assignment is rejected with an error")
    # "a failure leaves a completed prefix followed by failed operators": kill() fails exactly the unfinished suffix (C02#6)
    c02.check_suffix_slices(ctx, 5)
    c02.check_op_idx(ctx, 5)
    # "every container ends": a container whose demand exceeds its allocation stops making progress and is ended by the pool's killer —
    # in every tick, for every such container, whatever the overcommit setting (C04#6)
    from . import c04
    c04.check_kills(Renumber(ctx, {5: 3, 6: 3, 7: 3}))
    # ... and the killer itself must get through its pass: it orders the candidates by a key that is the score alone (whole entries would be compared on a
    # tie, and containers do not compare) and takes them from that list in order (C11#1/#2)
    from . import c11
    c11._run(Renumber(ctx, {1: 3, 2: 3}, drop=(3, 4, 5, 6)))
