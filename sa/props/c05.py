"""C05 — container execution follows the documented time and memory model."""
from __future__ import annotations

import ast
from typing import Dict, List, Optional, Tuple

from .. import norm, ratform, interval, piecewise
from ..model import own_nodes, stmt_text, parent, AnalysisError
from ..util import attr_writes, cfg_of, calls_named, single_defs, write_once_fields, inline_simple_calls, package_calls
from .common import *
from . import c02, c10, pool

EXPLANATION = (
    "Static decision of the structural clauses of C05 in Container._tick_generator and Segment.  (1,2) K7: the per-segment "
    "tick counts are floor(storage_read_gb/20*tps) and floor(scaling(cpus, baseline)*tps) over the reals (rational normal form "
    "after inlining Segment.get_io_seconds/get_cpu_time and the write-once field tick_length_secs = 1/tps; cpus is the "
    "container's own allocation, arguments in the order (cpus, baseline)); DISK_SCAN_GB_SEC is the literal 20.  (3) K5/K7: the "
    "seven scaling names are bound to seven distinct functions whose case-split bodies equal the reference laws.  (4) memory "
    "per tick: every setter call in the tick loop is classified by the facts that hold at it — I/O phase with fixed memory "
    "(tested with `is not None`) -> memory_gb; I/O phase growing -> (i+1)*20/tps; CPU phase -> peak memory (memory_gb if set "
    "else storage_read_gb).  (5) K3 order inside one tick: set memory -> freeze while over the limit -> completion test -> "
    "exactly one regular yield; no yield outside the tick loop.  (6,7) progress: the per-operator count-down starts at the sum "
    "of all segment ticks, is padded to >= 1 (path-sensitive interval), the tick loops iterate exactly the summed plan, the "
    "count-down is decremented once per non-frozen tick and COMPLETED is taken exactly when it reaches 0 — so every operator "
    "completes after exactly its summed tick count, at least one.  (8) kill fails exactly the unfinished suffix.")
UNDECIDED = ("on which side of a tick or memory-limit boundary a value within float rounding falls (tolerated by the property; "
             "formulas are compared over the reals)")
ASSUMPTIONS = COMMON_ASSUMPTIONS + ["segment sizes are non-negative and every operator has at least one segment (well-formed workload)",
                                    "scaling functions return non-negative times"]

# reference laws (c = cpus, b = baseline seconds); const/linear3/sqrt are the README-documented ones, the rest were confirmed
# by reading the pinned tree and are frozen here as the reference for later changes
LAWS = {
    "const": [((), "b")],
    "linear3": [((("cmp", "<", "c", "3"),), "b / c"), ((("cmp", "<=", "3", "c"),), "b / 3")],
    "linear7": [((("cmp", "<", "c", "7"),), "b / c"), ((("cmp", "<=", "7", "c"),), "b / 7")],
    "log": [((), "b / (np.log(c) + 1)")],
    "sqrt": [((), "b / np.sqrt(c)")],
    "squared": [((), "b / (c * c)")],
    "exp": [((("cmp", "<", "c", "4"),), "b / np.power(2, c)"), ((("cmp", "<=", "4", "c"),), "b / 16")],
}


def _region(conds):
    """conditions on c (comparisons with numeric literals) -> (lo, lo_closed, hi, hi_closed) or None if anything else is tested"""
    lo, lc, hi, hc = float("-inf"), False, float("inf"), False
    for a in conds:
        if not (isinstance(a, tuple) and a[0] == "cmp" and a[1] in ("<", "<=")):
            return None
        l, r = a[2], a[3]
        try:
            if l == "c":
                k = float(r)
                if k < hi or (k == hi and a[1] == "<"):
                    hi, hc = k, a[1] == "<="
            elif r == "c":
                k = float(l)
                if k > lo or (k == lo and a[1] == "<"):
                    lo, lc = k, a[1] == "<="
            else:
                return None
        except ValueError:
            return None
    return lo, lc, hi, hc


def _same_piecewise(cs, spec) -> bool:
    code = [(_region(c), e) for c, e in cs]
    ref = [(_region(frozenset(c)), ratform.parse(t)) for c, t in spec]
    if any(r is None or e is None for r, e in code) or any(r is None for r, _ in ref):
        return False
    # the pieces of the code must tile the line (they come from if/else splits; checked all the same: no gap, no overlap)
    pts = sorted({x for r, _ in code + ref for x in (r[0], r[2]) if x not in (float("-inf"), float("inf"))})
    probes = set(pts)
    edges = [float("-inf")] + pts + [float("inf")]
    for a, b in zip(edges, edges[1:]):
        probes.add((a + b) / 2 if a != float("-inf") and b != float("inf") else (b - 1 if a == float("-inf") and b != float("inf") else (a + 1 if b == float("inf") and a != float("-inf") else 0.0)))

    def inside(r, x):
        lo, lc, hi, hc = r
        return (lo < x or (lc and lo == x)) and (x < hi or (hc and hi == x))
    for x in probes:
        if sum(1 for r, _ in code if inside(r, x)) != 1 or sum(1 for r, _ in ref if inside(r, x)) != 1:
            return False
    for rc, ec in code:
        for rr, er in ref:
            lo = max(rc[0], rr[0])
            hi = min(rc[2], rr[2])
            lo_c = all(inside(r, lo) for r in (rc, rr)) if lo != float("-inf") else False
            hi_c = all(inside(r, hi) for r in (rc, rr)) if hi != float("inf") else False
            if lo > hi or (lo == hi and not (lo_c and hi_c)):
                continue            # the two regions do not meet
            if lo == hi:
                k = ast.Constant(value=int(lo) if float(lo).is_integer() else lo)
                if not ratform.same(norm.subst(ec, {"c": k}), norm.subst(er, {"c": k})):
                    return False
            elif not ratform.same(ec, er):
                return False
    return True


def check_scaling(ctx, num=3):
    P = ctx.P
    seg = P.cls(PL, "Segment")
    tab = None
    for st in seg.node.body:
        if isinstance(st, ast.Assign) and len(st.targets) == 1 and norm.is_name(st.targets[0], "SCALING_FUNCS") and isinstance(st.value, ast.Dict):
            tab = st.value
    ctx.need(tab is not None, "Segment.SCALING_FUNCS dict literal not found")
    ctx.files[seg.mod.rel] = seg.mod.sha
    names = {}
    for k, v in zip(tab.keys, tab.values):
        if isinstance(k, ast.Constant) and isinstance(k.value, str):
            names[k.value] = v
    ctx.ob(num, "K5", "exactly the seven scaling laws const, log, sqrt, linear3, linear7, squared, exp are offered", set(names) == set(LAWS), file=PL,
           construct="Segment.SCALING_FUNCS keys", detail=f"keys: {sorted(names)}")
    targets = [norm.U(v) for v in names.values()]
    ctx.ob(num, "K5", "the seven names are bound to seven distinct functions (the reverse lookup of a law's name is injective)",
           len(set(targets)) == len(targets), file=PL, construct="Segment.SCALING_FUNCS values", detail=f"{targets}")
    for name, v in sorted(names.items()):
        if name not in LAWS:
            continue
        fq = None
        if isinstance(v, ast.Attribute) and isinstance(v.value, ast.Name):
            fq = f"{v.value.id}.{v.attr}"
        elif isinstance(v, ast.Name):
            fq = v.id
        f = None
        try:
            f = P.fn(PL, fq) if fq else None
        except AnalysisError:
            f = None
        if f is None:
            ctx.ob(num, "K7", f"scaling law {name} is a function of the package", False, file=PL, construct=f"SCALING_FUNCS[{name!r}]", detail=f"bound to {norm.U(v)}")
            continue
        ctx.touch(f)
        ps = f.params()
        ok = len(ps) == 2
        d = ""
        if ok:
            try:
                cs = piecewise.cases(f.node, rename={ps[0]: "c", ps[1]: "b"})
                spec = LAWS[name]
                ok = len(cs) == len(spec)
                for conds, expr in cs:
                    m = [s for s in spec if frozenset(s[0]) == conds]
                    if len(m) != 1 or expr is None or not ratform.same(expr, ratform.parse(m[0][1])):
                        ok = False
                if not ok:
                    # the same function cut differently: the pieces of the code are compared with the pieces of the reference on the
                    # intersections of their regions (intervals of c); where two regions meet in a single point the two expressions are
                    # compared at that point (`c <= 3` instead of `c < 3` is the same law: b/c and b/3 agree at 3)
                    ok = _same_piecewise(cs, spec)
                d = "; ".join(f"[{' and '.join(norm.show(a) for a in sorted(c, key=repr)) or 'always'}] -> {norm.U(e) if e is not None else None}" for c, e in cs)
            except piecewise.Unsupported as e:
                ok, d = False, f"body not a simple case split: {e}"
        ctx.ob(num, "K7", f"scaling law {name}(cpus, baseline) equals its reference law", ok, f, f.node, construct=f"law {name}",
               detail=f"code cases: {d}; reference: {LAWS[name]}")
    # Segment.__init__ binds the named law; get_cpu_time forwards (num_cpus, baseline) in that order
    gi = P.fn(PL, "Segment.get_cpu_time")
    ctx.touch(gi)
    rs = [r for r in own_nodes(gi.node) if isinstance(r, ast.Return)]
    ps = gi.params()
    ok = len(rs) == 1 and len(ps) == 2 and rs[0].value is not None and norm.U(rs[0].value) == f"self.scaling_func({ps[1]}, self.baseline_cpu_seconds)"
    ctx.ob(2, "K6", "Segment.get_cpu_time applies the segment's scaling law to (cpus, baseline_cpu_seconds), in this order", ok, gi, rs[0] if rs else gi.node,
           detail=f"{[stmt_text(r) for r in rs]}")
    io = P.fn(PL, "Segment.get_io_seconds")
    ctx.touch(io)
    rs = [r for r in own_nodes(io.node) if isinstance(r, ast.Return)]
    consts = c10._consts(P)
    ok = len(rs) == 1 and rs[0].value is not None and ratform.same(rs[0].value, ratform.parse("self.storage_read_gb / 20"), None, consts)
    ctx.ob(1, "K7", "I/O time is storage_read_gb / 20 GB/s", ok, io, rs[0] if rs else io.node, detail=f"{[stmt_text(r) for r in rs]}; DISK_SCAN_GB_SEC = {consts.get('DISK_SCAN_GB_SEC')}")
    ctx.ob(1, "K5", "the disk scan rate constant is the documented 20 GB/s", consts.get("DISK_SCAN_GB_SEC") == 20, file=CONSTS, construct="DISK_SCAN_GB_SEC = 20",
           detail=f"literal: {consts.get('DISK_SCAN_GB_SEC')}")
    si = P.fn(PL, "Segment.__init__")
    ctx.touch(si)
    g = cfg_of(si, subst_env=False)
    st = [n for n in own_nodes(si.node) if isinstance(n, ast.Assign) and any(self_attr(t, "scaling_func") for t in n.targets)]
    from . import sched as _sched
    vals = []
    for s_ in st:
        if isinstance(s_.value, ast.Name):
            vals += [d_.value for d_ in _sched.reaching_defs(si, g, s_, s_.value.id) if isinstance(d_, ast.Assign)]
        else:
            vals.append(s_.value)
    ok = any(norm.U(v_) in ("Segment.SCALING_FUNCS[cpu_scaling]", "self.SCALING_FUNCS[cpu_scaling]") for v_ in vals)
    ctx.ob(3, "K6", "a segment created with a law's name runs that law", ok, si, st[0] if st else si.node, construct="self.scaling_func = SCALING_FUNCS[cpu_scaling]",
           detail=f"{[stmt_text(s) for s in st]}")
    for fld in ("baseline_cpu_seconds", "memory_gb", "storage_read_gb"):
        s2 = [n for n in own_nodes(si.node) if isinstance(n, ast.Assign) and any(self_attr(t, fld) for t in n.targets)]
        ctx.ob(3, "K6", f"Segment.{fld} stores the constructor argument", len(s2) == 1 and norm.U(s2[0].value) == fld, si, s2[0] if s2 else si.node,
               construct=f"self.{fld} = {fld}", detail=f"{[stmt_text(s) for s in s2]}")
    pk = P.fn(PL, "Segment.get_peak_memory_gb")
    ctx.touch(pk)
    try:
        cs = piecewise.cases(pk.node)
        want = {frozenset([("cmp", "isnot", "self.memory_gb", "None")]): "self.memory_gb", frozenset([("cmp", "is", "self.memory_gb", "None")]): "self.storage_read_gb"}
        ok = len(cs) == 2 and all(c in want and e is not None and norm.U(e) == want[c] for c, e in cs)
        d = "; ".join(f"[{' and '.join(norm.show(a) for a in c)}] -> {norm.U(e) if e is not None else None}" for c, e in cs)
    except piecewise.Unsupported as e:
        ok, d = False, str(e)
    ctx.ob(4, "K7", "peak memory is the fixed memory if one is given (tested with `is not None`, so an explicit 0 counts) and the amount read otherwise", ok, pk, pk.node,
           construct="get_peak_memory_gb cases", detail=d)


def _countdown_form(f):
    """An operator's progress may be kept as ticks *left* (total, total-1, .., 0) or as ticks *done* against a fixed total
    (0, 1, .., total): `done == total` iff `total - done == 0`.  The rules below are stated on the count-down; a generator written with
    the upward counter is rewritten to it: `done = 0` dropped, `done += 1` -> `total -= 1`, `done == total` -> `total == 0` — valid
    because after `done = 0` the total is read nowhere but in that test."""
    from ..model import Func
    incs = [n for n in own_nodes(f.node) if isinstance(n, ast.AugAssign) and isinstance(n.target, ast.Name) and isinstance(n.op, ast.Add)
            and isinstance(n.value, ast.Constant) and n.value.value == 1 and not isinstance(n.value.value, bool)]
    for inc in incs:
        D = inc.target.id
        inits = [n for n in own_nodes(f.node) if isinstance(n, ast.Assign) and len(n.targets) == 1 and norm.is_name(n.targets[0], D)]
        if len(inits) != 1 or not (isinstance(inits[0].value, ast.Constant) and inits[0].value.value == 0 and not isinstance(inits[0].value.value, bool)):
            continue
        if len([n for n in own_nodes(f.node) if isinstance(n, ast.AugAssign) and norm.is_name(n.target, D)]) != 1:
            continue
        tests = [n for n in own_nodes(f.node) if isinstance(n, ast.Compare) and len(n.ops) == 1 and isinstance(n.ops[0], ast.Eq)
                 and isinstance(n.left, ast.Name) and isinstance(n.comparators[0], ast.Name) and D in (n.left.id, n.comparators[0].id)]
        reads = [n for n in own_nodes(f.node) if isinstance(n, ast.Name) and n.id == D and isinstance(n.ctx, ast.Load)]
        if len(tests) != 1 or len(reads) != 1:
            continue
        T = tests[0].comparators[0].id if tests[0].left.id == D else tests[0].left.id
        # after `D = 0` the total is read only in the test and never written
        later_T = [n for n in own_nodes(f.node) if isinstance(n, ast.Name) and n.id == T and pos(f, n) > pos(f, inits[0]) and not any(n is x for x in ast.walk(tests[0]))]
        if later_T:
            continue
        node = norm.clone(f.node)
        omap = {id(o): c_ for o, c_ in zip(ast.walk(f.node), ast.walk(node))}

        class R(ast.NodeTransformer):
            def visit_Assign(self, n):
                return ast.copy_location(ast.Pass(), n) if n is omap[id(inits[0])] else self.generic_visit(n)

            def visit_AugAssign(self, n):
                if n is omap[id(inc)]:
                    return ast.copy_location(ast.AugAssign(target=ast.Name(id=T, ctx=ast.Store()), op=ast.Sub(), value=ast.Constant(1)), n)
                return self.generic_visit(n)

            def visit_Compare(self, n):
                if n is omap[id(tests[0])]:
                    return ast.copy_location(ast.Compare(left=ast.Name(id=T, ctx=ast.Load()), ops=[ast.Eq()], comparators=[ast.Constant(0)]), n)
                return self.generic_visit(n)
        node = R().visit(node)
        ast.fix_missing_locations(node)
        for n in ast.walk(node):
            for ch in ast.iter_child_nodes(n):
                ch._parent = n  # type: ignore[attr-defined]
        node._parent = getattr(f.node, "_parent", None)  # type: ignore[attr-defined]
        return Func(f.mod, f.qual, node, f.cls)
    return f


class Shape:
    """The tick plan of the generator, located by role (not by name)."""

    def __init__(self, ctx):
        P = ctx.P
        self.P = P
        from ..util import inline_helpers
        self.gen = _countdown_form(inline_helpers(P, P.fn(CT, "Container._tick_generator")))   # yield-free private helpers extracted from the generator are inlined
        ctx.touch(self.gen)
        f = self.gen
        self.g = cfg_of(f, subst_env=False)
        self.env = single_defs(f)
        self.problems: List[str] = []
        yn = [n for n in self.g.nodes if n.is_yield]
        if not yn:
            raise AnalysisError("Container._tick_generator has no yield")
        # tick loop = the innermost for loop containing the yields
        loops = {}
        for y in yn:
            lp = enclosing_for(y.ast, f.node)
            loops[id(lp)] = lp
        self.yield_nodes = yn
        self.tick_loops = [l for l in loops.values() if l is not None]
        self.outside_yields = [y for y in yn if enclosing_for(y.ast, f.node) is None]
        self.tick_loop = self.tick_loops[0] if len(self.tick_loops) == 1 else None
        self.op_loop = None
        self.seg_loop = None
        if self.tick_loop is not None:
            self.seg_loop = enclosing_for(self.tick_loop, f.node)
            if self.seg_loop is not None:
                self.op_loop = enclosing_for(self.seg_loop, f.node)


def _loop_single_defs(lp: ast.For) -> Dict[str, ast.expr]:
    from ..util import loop_env
    return loop_env(lp)


def check_plan(ctx):
    """(1)(2)(6)(7): tick counts, plan construction, padding, count-down."""
    P = ctx.P
    sh = Shape(ctx)
    f, g = sh.gen, sh.g
    ok_shape = sh.tick_loop is not None and sh.seg_loop is not None and sh.op_loop is not None and not sh.outside_yields
    ctx.ob(5, "K3", "all tick boundaries (yields) lie in one per-tick loop nested in a per-segment loop nested in the per-operator loop", ok_shape, f,
           sh.tick_loop or f.node, construct="loop nest operator > segment > tick",
           detail=f"tick loops found: {len(sh.tick_loops)}; yields outside any loop: {len(sh.outside_yields)}")
    if not ok_shape:
        return None
    tl, sl, ol = sh.tick_loop, sh.seg_loop, sh.op_loop
    fenv = write_once_fields(P, CT, "Container")
    fenv = {k: v for k, v in fenv.items() if k in ("self.tick_length_secs", "self.ticks_per_second")}
    consts = c10._consts(P)
    # tick loop: for i in range(T)
    T = None
    if isinstance(tl.iter, ast.Call) and norm.is_name(tl.iter.func, "range") and len(tl.iter.args) == 1 and isinstance(tl.target, ast.Name):
        T = tl.iter.args[0]
    ctx.ob(5, "K3", "the per-tick loop runs once per tick of the segment: for i in range(<segment ticks>)", T is not None, f, tl, detail=stmt_text(tl))
    if T is None:
        return None
    ivar = tl.target.id
    envs = dict(sh.env)
    envs.update(_loop_single_defs(sl))
    Tx = norm.subst(T, {k: v for k, v in envs.items() if k in norm.names_in(T)})
    # segment loop: for seg, (io, cpu) in zip(segments, plan)
    segv = iov = cpuv = planv = segsv = None
    it = sl.iter
    if isinstance(it, ast.Call) and norm.is_name(it.func, "zip") and len(it.args) == 2 and isinstance(sl.target, ast.Tuple) and len(sl.target.elts) == 2:
        a, b = sl.target.elts
        if isinstance(a, ast.Name) and isinstance(b, ast.Tuple) and len(b.elts) == 2 and all(isinstance(x, ast.Name) for x in b.elts) \
                and isinstance(it.args[0], ast.Name) and isinstance(it.args[1], ast.Name):
            segv, iov, cpuv = a.id, b.elts[0].id, b.elts[1].id
            segsv, planv = it.args[0].id, it.args[1].id
    ctx.ob(6, "K6", "the segment loop pairs every segment with its own planned (io ticks, cpu ticks): for seg, (io, cpu) in zip(segments, plan)", segv is not None,
           f, sl, detail=stmt_text(sl))
    if segv is None:
        return None
    okT = ratform.same(Tx, ratform.parse(f"{iov} + {cpuv}"))
    ctx.ob(5, "K7", "a segment occupies io ticks + cpu ticks ticks", okT, f, tl, construct="range(io_ticks + cpu_ticks)", detail=f"range bound resolves to {norm.U(Tx)}")
    # segments = op.get_segments()
    opv = None
    if isinstance(ol.target, ast.Tuple) and len(ol.target.elts) == 2 and isinstance(ol.target.elts[1], ast.Name):
        opv = ol.target.elts[1].id
    elif isinstance(ol.target, ast.Name):
        opv = ol.target.id
    segs_def = _loop_single_defs(ol).get(segsv)
    oks = segs_def is not None and opv is not None and norm.U(inline_simple_calls(P, segs_def)) in (f"{opv}.values", f"{opv}.get_segments()")
    ctx.ob(6, "K6", "the segments executed are the operator's own segment list, in order", oks, f, ol, construct="segments = op.get_segments()",
           detail=f"{segsv} = {norm.U(segs_def) if segs_def is not None else None}")
    # plan construction: plan = [] ; for s in segments: plan.append((A, B))       (the plan may be built under another name and bound afterwards)
    plan0 = planv
    for _ in range(3):
        al = [n for n in ol.body if isinstance(n, ast.Assign) and len(n.targets) == 1 and norm.is_name(n.targets[0], planv) and isinstance(n.value, ast.Name)]
        if len(al) == 1:
            planv = al[0].value.id
    inits = [n for n in ol.body if isinstance(n, ast.Assign) and len(n.targets) == 1 and norm.is_name(n.targets[0], planv)]
    apps = [c for c in calls_named(f, "append") if isinstance(c.func, ast.Attribute) and norm.is_name(c.func.value, planv)]
    A = B = None
    bl = None
    okp = len(inits) == 1 and isinstance(inits[0].value, ast.List) and not inits[0].value.elts and len(apps) == 1
    d = f"initialisations: {[stmt_text(i) for i in inits]}; appends: {[norm.U(a) for a in apps]}"
    if okp:
        ap = apps[0]
        bl = enclosing_for(ap, f.node)
        entry = norm.subst(ap.args[0], _loop_single_defs(bl)) if bl is not None else ap.args[0]
        same_list = bl is not None and (norm.is_name(bl.iter, segsv) or (segs_def is not None and opv is not None and norm.U(inline_simple_calls(P, bl.iter)) in
                                                                       (f"{opv}.values", f"{opv}.get_segments()")))      # the list itself, or read again from the operator
        okp = bl is not None and enclosing_for(bl, f.node) is ol and same_list and isinstance(bl.target, ast.Name) \
            and isinstance(entry, ast.Tuple) and len(entry.elts) == 2
        if okp:
            hid = g.node_of(bl).id
            skip = g.path_avoiding(hid, {hid, g.exit.id}, {g.node_of(ap).id}, edge_ok=lambda a, b, lab, hid=hid: not (a == hid and lab == "done"))
            okp = skip is None and g.dominates(inits[0], bl) and g.dominates(bl, sl)
            benv = _loop_single_defs(bl)
            A = norm.subst(entry.elts[0], benv)
            B = norm.subst(entry.elts[1], benv)
            d += f"; one entry per segment, built before the segments run: {okp}"
    ctx.ob(6, "K6", "the tick plan has exactly one (io ticks, cpu ticks) entry per segment, in segment order", okp, f, apps[0] if apps else ol,
           construct="plan.append((io_ticks, cpu_ticks)) for every segment", detail=d)
    if not okp:
        return None
    s2 = bl.target.id
    full_env = dict(fenv)
    A2 = inline_simple_calls(P, A)
    B2 = inline_simple_calls(P, B)
    spec_io = ratform.parse(f"floor({s2}.storage_read_gb / 20 * ticks_per_second)")
    spec_cpu = ratform.parse(f"floor({s2}.scaling_func(self.assignment.cpu, {s2}.baseline_cpu_seconds) * ticks_per_second)")
    for num, what, code, spec in ((1, "I/O ticks = floor(read_gb / 20 * ticks_per_second)", A2, spec_io),
                                   (2, "CPU ticks = floor(cpu_time(allocated cpus) * ticks_per_second)", B2, spec_cpu)):
        try:
            r = ratform.to_rat(code, full_env, consts)
            ok = r.equals(ratform.to_rat(spec, None, consts))
            got = r.text()
        except ratform.NotArithmetic as e:
            ok, got = False, f"not arithmetic: {e}"
        ctx.ob(num, "K7", what, ok, f, apps[0], construct=what.split(" =")[0], detail=f"code over the reals: {got}; documented: {ratform.to_rat(spec, None, consts).text()}")
    # the plan entries are not modified except by the padding below
    plan_names = {planv, plan0}
    plan_writes = [n for n in own_nodes(f.node) if isinstance(n, (ast.Assign, ast.AugAssign, ast.Delete)) and any(
        isinstance(t, ast.Subscript) and isinstance(t.value, ast.Name) and t.value.id in plan_names for t in (n.targets if isinstance(n, (ast.Assign, ast.Delete)) else [n.target]))]
    plan_muts = [c for c in own_nodes(f.node) if isinstance(c, ast.Call) and isinstance(c.func, ast.Attribute) and isinstance(c.func.value, ast.Name) and c.func.value.id in plan_names
                 and c.func.attr != "append"]
    # count-down
    decs = [n for n in ast.walk(tl) if isinstance(n, ast.AugAssign) and isinstance(n.target, ast.Name) and isinstance(n.op, ast.Sub)
            and isinstance(n.value, ast.Constant) and n.value.value == 1]
    completed = [c for c, r, st in transition_calls(f) if st == "COMPLETED"]
    cd = None
    for n in decs:
        v = n.target.id
        if any(norm.entails(g.facts_at(c), norm.mk_cmp("==", "0", v)) for c in completed):
            cd = n
        # `<= 0` / `< 1` is the same test: the count-down starts at the planned tick count padded to >= 1 (next obligations), goes down by one per
        # tick and is tested right after the decrement, so the first tick in which it is `<= 0` is the tick in which it is 0
        elif any(norm.entails(g.facts_at(c), norm.nnf(ast.parse(t_, mode="eval").body)) for c in completed for t_ in (f"{v} <= 0", f"{v} < 1")) \
                and all(g.dominates(n, c) for c in completed):
            cd = n
    ctx.ob(6, "K2", "an operator is COMPLETED exactly on its last tick: a per-operator count-down is decremented once per tick and COMPLETED is taken when it is 0",
           cd is not None, f, completed[0] if completed else tl, construct="count-down == 0 guards COMPLETED",
           detail=f"decrements in the tick loop: {[stmt_text(n) for n in decs]}; facts at COMPLETED: {[sorted(norm.show(x) for x in g.facts_at(c)) for c in completed]}")
    if cd is None:
        return sh
    v = cd.target.id
    # all writes to the count-down
    ws = [n for n in own_nodes(f.node) if isinstance(n, (ast.Assign, ast.AugAssign)) and any(norm.is_name(t, v) for t in (n.targets if isinstance(n, ast.Assign) else [n.target]))]
    init = [n for n in ws if isinstance(n, ast.Assign) and n in ol.body]
    oki = False
    d = f"initialisations: {[stmt_text(n) for n in init]}"
    if len(init) == 1 and isinstance(init[0].value, ast.Call) and norm.is_name(init[0].value.func, "sum") and len(init[0].value.args) == 1 \
            and isinstance(init[0].value.args[0], (ast.GeneratorExp, ast.ListComp)):
        ge = init[0].value.args[0]
        if len(ge.generators) == 1 and not ge.generators[0].ifs and isinstance(ge.generators[0].iter, ast.Name) and ge.generators[0].iter.id in plan_names \
                and isinstance(ge.generators[0].target, ast.Tuple) \
                and len(ge.generators[0].target.elts) == 2 and all(isinstance(x, ast.Name) for x in ge.generators[0].target.elts):
            a_, b_ = (x.id for x in ge.generators[0].target.elts)
            oki = ratform.same(ge.elt, ratform.parse(f"{a_} + {b_}")) and g.dominates(bl, init[0]) and g.dominates(init[0], sl)
    acc = None
    if not oki and len(init) == 1 and isinstance(init[0].value, ast.Constant) and init[0].value.value == 0 and not isinstance(init[0].value.value, bool):
        # the same sum accumulated while the plan is built:  v = 0 ; for s in segments: plan.append((A, B)) ; v += A + B
        accs = [n for n in ws if isinstance(n, ast.AugAssign) and isinstance(n.op, ast.Add) and any(n is x for x in ast.walk(bl))]
        if len(accs) == 1:
            hidb = g.node_of(bl).id
            every = g.path_avoiding(hidb, {hidb, g.exit.id}, {g.node_of(accs[0]).id}, edge_ok=lambda a, b, lab, hidb=hidb: not (a == hidb and lab == "done")) is None
            val = norm.subst(accs[0].value, _loop_single_defs(bl))
            try:
                same = ratform.to_rat(val, None, consts).equals(ratform.to_rat(ast.BinOp(left=A, op=ast.Add(), right=B), None, consts))
            except ratform.NotArithmetic:
                same = norm.U(val) in (f"{norm.U(A)} + {norm.U(B)}", f"{norm.U(B)} + {norm.U(A)}")
            oki = every and same and g.dominates(init[0], bl)
            d += f"; accumulated in the plan loop: `{stmt_text(accs[0])}` on every iteration: {every}; equals the entry appended: {same}"
            if oki:
                acc = accs[0]
    ctx.ob(7, "K7", "the count-down of an operator starts at the sum of the io and cpu ticks of all its segments", oki, f, init[0] if init else ol,
           construct="op_ticks_left = sum(io + cpu for io, cpu in plan)", detail=d)
    # padding: after the initialisation and before the segment loop the count-down is >= 1, and the plan sums to it
    pos_atoms = {f"{s2}.storage_read_gb", "ticks_per_second", "self.ticks_per_second", "DISK_SCAN_GB_SEC", "self.assignment.cpu"}

    def positive(t: str):
        strict = t.startswith("__strict__:")
        tt = t[11:] if strict else t
        if tt in pos_atoms:
            return 0
        if ".scaling_func(" in tt and not strict:
            return 0
        return None
    envAB = dict(full_env)
    lbA = interval.lower_bound(A2, envAB, positive)
    lbB = interval.lower_bound(B2, envAB, positive)
    ctx.ob(7, "K9", "tick counts are non-negative", lbA >= 0 and lbB >= 0, f, apps[0], construct="io_ticks >= 0 and cpu_ticks >= 0",
           detail=f"lower bounds: io {lbA}, cpu {lbB}")
    goal = norm._mk("or", [norm.mk_cmp("!=", "0", v), norm.mk_cmp("==", "1", v)])
    ge1 = oki and lbA >= 0 and lbB >= 0 and g.holds_on_entry(sl, goal)
    ctx.ob(7, "K9", "an operator occupies at least one tick: when the segment loop starts the count-down is >= 1 on every path "
           "(a sum of non-negative counts that is not 0, or padded to 1)", ge1, f, sl, construct="count-down >= 1 before the first tick",
           detail=f"goal at the segment loop: {norm.show(goal)} with count-down >= 0; holds: {ge1}")
    pads = [n for n in ws if n not in init and n is not cd and n is not acc]
    okpad = True
    dpad = []
    for n in pads:
        fs = g.facts_at(n)
        zero = norm.entails(fs, norm.mk_cmp("==", "0", v))
        one = isinstance(n, ast.Assign) and isinstance(n.value, ast.Constant) and n.value.value == 1
        blk = pool.block_of(n)
        # the plan must be padded by the same single tick, in the CPU phase of the last segment
        pw = [w for w in plan_writes if any(w is s for s in blk)]
        okw = len(pw) == 1 and isinstance(pw[0], ast.Assign) and any(norm.U(pw[0].targets[0]) == f"{pn}[-1]"
            and norm.U(pw[0].value) in (f"({pn}[-1][0], 1)", f"({pn}[-1][0], {pn}[-1][1] + 1)") for pn in plan_names)
        before = g.dominates(n, sl) and n in ol.body or any(n in getattr(x, "body", []) for x in ol.body)
        if not (zero and one and okw):
            okpad = False
        dpad.append(f"`{stmt_text(n)}` under count-down == 0: {zero}; sets 1: {one}; plan padded consistently ({[stmt_text(w) for w in pw]}): {okw}")
    stray_plan = [w for w in plan_writes if not any(any(w is s for s in pool.block_of(n)) for n in pads)]
    ctx.ob(7, "K4", "padding keeps plan and count-down in step: only an all-zero operator is padded, by one tick in the CPU phase of its last segment, "
           "and the count-down is set to that same 1", okpad and not stray_plan and not plan_muts, f, pads[0] if pads else (stray_plan[0] if stray_plan else ol),
           construct="padding of the plan", detail="; ".join(dpad) + (f"; other plan writes: {[stmt_text(w) for w in stray_plan]}" if stray_plan else "")
           + (f"; other plan mutations: {[norm.U(m) for m in plan_muts]}" if plan_muts else ""))
    # decrement exactly once per non-frozen tick, after the freeze check, before the completion test and the yield
    sh.cd = cd
    sh.ivar, sh.iov, sh.cpuv, sh.segv = ivar, iov, cpuv, segv
    return sh


def check_tick_body(ctx, sh):
    """(4)(5): memory per tick and the order of actions inside one tick."""
    if sh is None or sh.tick_loop is None or not hasattr(sh, "ivar"):
        return
    P = ctx.P
    f, g, tl = sh.gen, sh.g, sh.tick_loop
    hid = g.node_of(tl).id
    it_edge = lambda a, b, lab: not (a == hid and lab == "done")
    i, IO, seg = sh.ivar, sh.iov, sh.segv
    setters = [c for c in calls_named(f, "set_current_memory_usage") if isinstance(c.func, ast.Attribute) and norm.is_name(c.func.value, "self")
               and any(a is tl for a in _anc(c))]
    ctx.count_min("memory setter calls in the tick loop", len(setters), 1)
    consts = c10._consts(P)
    fenv = {k: v for k, v in write_once_fields(P, CT, "Container").items() if k in ("self.tick_length_secs", "self.ticks_per_second")}
    envl = _loop_single_defs(tl)
    seen = set()
    sites = []
    from . import sched as _sched
    for c in setters:
        a0 = c.args[0] if c.args else None
        if isinstance(a0, ast.Name) and a0.id not in envl:
            ds = [d_ for d_ in _sched.reaching_defs(f, g, c, a0.id) if isinstance(d_, ast.Assign)]
            if len(ds) > 1:
                sites += [(d_, d_.value, c) for d_ in ds]     # the memory value is chosen per branch, then set once
                continue
        sites.append((c, a0, c))
    for at, a0, c in sites:
        fs = g.facts_at(at)
        in_io = norm.entails(fs, ("cmp", "<", i, IO))
        in_cpu = norm.entails(fs, ("cmp", "<=", IO, i))
        fixed = norm.entails(fs, ("cmp", "isnot", f"{seg}.memory_gb", "None"))
        grow = norm.entails(fs, ("cmp", "is", f"{seg}.memory_gb", "None"))
        arg = norm.subst(a0, envl) if a0 is not None else None
        case, ok, want = "unclassified", False, "?"
        if arg is not None:
            if in_io and fixed:
                case, want = "I/O phase, fixed memory", f"{seg}.memory_gb"
                ok = norm.U(arg) == want
            elif in_io and grow:
                case, want = "I/O phase, growing", f"({i} + 1) * 20 / ticks_per_second"
                try:
                    ok = ratform.to_rat(arg, fenv, consts).equals(ratform.to_rat(ratform.parse(want), None, consts))
                except ratform.NotArithmetic:
                    ok = False
            elif in_cpu:
                case, want = "CPU phase", f"{seg}.get_peak_memory_gb()"
                ok = norm.U(arg) == want
        seen.add(case)
        ctx.ob(4, "K2", "memory in each tick follows the model: fixed memory if given (tested with `is not None`), else (i+1)*20/tps GB while reading, "
               "and the peak memory through the CPU phase", ok, f, at,
               detail=f"case by the facts at the call: {case}; argument: {norm.U(arg) if arg is not None else None}; required: {want}; "
                      f"facts: {sorted(norm.show(x) for x in fs)}")
    for need_ in ("I/O phase, fixed memory", "I/O phase, growing", "CPU phase"):
        ctx.ob(4, "K2", f"the memory model covers the case: {need_}", need_ in seen, f, tl, construct=f"memory case: {need_}", detail=f"cases found: {sorted(seen)}")
    sids = {g.node_of(c).id for c in setters}
    # every iteration sets memory exactly once before anything else observable
    p = g.path_avoiding(hid, {hid, g.exit.id} | {n.id for n in sh.yield_nodes}, sids, edge_ok=it_edge)
    ctx.ob(5, "K3", "every tick first sets the container's memory for that tick", p is None, f, tl, construct="memory set first",
           detail="no path reaches a yield or the next tick without a setter call" if p is None else f"path: {g.describe_path(p)}")
    twice = None
    for s in sids:
        twice = twice or g.path_avoiding(s, sids, {hid})
    ctx.ob(5, "K3", "memory is set once per tick", twice is None, f, tl, construct="memory set once", detail="no path passes two setter calls in one tick" if twice is None else g.describe_path(twice))
    # freeze loop
    freezes = [n for n in ast.walk(tl) if isinstance(n, ast.While) and all(isinstance(x, ast.Expr) and isinstance(x.value, ast.Yield) for x in n.body)
               and norm.nnf(n.test) in [("cmp", "<", "self.assignment.ram", u) for u in ("self._current_memory", "self.get_current_memory_usage()")]]
    ctx.ob(5, "K3", "after setting memory the container freezes (yields without progress) for as long as its usage exceeds its allocation", len(freezes) == 1, f,
           freezes[0] if freezes else tl, construct="while usage > allocation: yield", detail=f"{len(freezes)} freeze loop(s)")
    if len(freezes) != 1:
        return
    W = g.node_of(freezes[0]).id
    fy = {n.id for n in sh.yield_nodes if parent(n.ast) is freezes[0]}
    ry = {n.id for n in sh.yield_nodes} - fy
    # setter -> W before anything else
    bad_targets = ry | {g.node_of(c).id for c, r, s in transition_calls(f) if s == "COMPLETED"} | ({g.node_of(sh.cd).id} if getattr(sh, "cd", None) is not None else set()) | {hid}
    p = None
    for s in sids:
        p = p or g.path_avoiding(s, bad_targets, {W}, edge_ok=it_edge)
    ctx.ob(5, "K3", "the limit check follows the memory update before any progress is made in that tick (OOM in exactly the first tick the demand exceeds the allocation)",
           p is None, f, freezes[0], construct="set memory -> freeze check", detail="no path from the setter to progress/yield avoids the check" if p is None else g.describe_path(p))
    # from W (not frozen) to next tick: exactly one regular yield, the decrement once, completion before the yield
    p1 = g.path_avoiding(W, {hid, g.exit.id}, ry | fy, edge_ok=lambda a, b, lab: it_edge(a, b, lab))
    ctx.ob(5, "K3", "a non-frozen tick ends with a yield (one tick of simulated time per loop iteration)", p1 is None, f, tl, construct="at least one yield per tick",
           detail="every path from the limit check to the next iteration passes a yield" if p1 is None else g.describe_path(p1))
    p2 = None
    for y in ry:
        p2 = p2 or g.path_avoiding(y, ry, {hid})
    ctx.ob(5, "K3", "a non-frozen tick yields exactly once", p2 is None, f, tl, construct="at most one regular yield per tick",
           detail="no path passes two regular yields within one iteration" if p2 is None else g.describe_path(p2))
    cd = getattr(sh, "cd", None)
    if cd is not None:
        cid = g.node_of(cd).id
        p3 = g.path_avoiding(W, ry, {cid}, edge_ok=lambda a, b, lab: not (a == W and isinstance(lab, tuple) and b in fy))
        # paths W -> regular yield that avoid the decrement (excluding the frozen branch)
        p3 = g.path_avoiding(W, ry, {cid} | fy)
        ctx.ob(7, "K3", "every non-frozen tick decrements the operator's count-down", p3 is None, f, cd, construct="decrement on every non-frozen tick",
               detail="every path from the limit check to the yield passes the decrement" if p3 is None else g.describe_path(p3))
        p4 = g.path_avoiding(cid, {cid}, {hid})
        ctx.ob(7, "K3", "the count-down is decremented once per tick", p4 is None, f, cd, construct="decrement once", detail="no path decrements twice in one tick" if p4 is None else g.describe_path(p4))
        pre = g.path_avoiding(hid, {cid}, {W}, edge_ok=it_edge)
        ctx.ob(7, "K3", "a frozen tick makes no progress (the count-down is decremented only after the limit check passed)", pre is None, f, cd,
               construct="decrement after freeze check", detail="the decrement is unreachable before the check" if pre is None else g.describe_path(pre))
        for c, r, s in transition_calls(f):
            if s != "COMPLETED":
                continue
            comp_after = g.dominates(cd, c) and g.path_avoiding(g.node_of(c).id, {hid, g.exit.id}, ry) is None
            ctx.ob(6, "K3", "the completion test follows the decrement in the same tick and the completing tick still ends with its yield", comp_after, f, c,
                   detail=f"decrement dominates COMPLETED and COMPLETED is followed by the tick's yield: {comp_after}")
            # completeness: whenever the count-down is 0 after the decrement, COMPLETED is taken
            v = cd.target.id
            nz = norm.mk_cmp("!=", "0", v)

            nzs = [nz] + [norm.nnf(ast.parse(t_, mode="eval").body) for t_ in (f"{v} > 0", f"{v} >= 1")]     # what the false branch of `== 0` / `<= 0` / `< 1` says

            def edge_ok(a, b, lab, nzs=nzs):
                return not (isinstance(lab, tuple) and lab[0] == "cond" and any(z in norm.atoms_true(lab[1]) for z in nzs))
            skipc = g.path_avoiding(cid, ry, {g.node_of(c).id}, edge_ok=edge_ok)
            ctx.ob(6, "K2", "whenever the count-down reaches 0 the operator is completed in that tick", skipc is None, f, c, construct="completion completeness",
                   detail="no path with count-down == 0 skips COMPLETED" if skipc is None else g.describe_path(skipc))


def _anc(n):
    from ..model import ancestors
    return list(ancestors(n))


def check_order(ctx, num=8):
    """operators run in the assigned order: Assignment keeps the list it was given, Container.operators is that list,
    the generator walks it front to back (C01#6 checks the walk)."""
    P = ctx.P
    c02.check_assignment_ctor(ctx, num)
    pf = P.fn(CT, "Container.operators")
    ctx.touch(pf)
    rs = [r for r in own_nodes(pf.node) if isinstance(r, ast.Return)]
    ok = len(rs) == 1 and rs[0].value is not None and norm.U(rs[0].value) == "self.assignment.ops"
    ctx.ob(num, "K6", "a container's operator list is the assignment's operator list (same order)", ok, pf, rs[0] if rs else pf.node, detail=f"{[stmt_text(r) for r in rs]}")
    from . import c01
    c01.check_running_sites(ctx)


def check_tick_method(ctx, num=8):
    """Container.tick(): one call advances the generator by exactly one tick boundary and counts one elapsed tick, unless the
    container has already ended (then nothing happens)."""
    P = ctx.P
    t = P.fn(CT, "Container.tick")
    ctx.touch(t)
    g = cfg_of(t, subst_env=False)
    ci = P.fn(CT, "Container.__init__")
    its = [n for n in own_nodes(ci.node) if isinstance(n, ast.Assign) and any(self_attr(x, "_tick_iter") for x in n.targets)]
    okit = len(its) == 1 and norm.U(its[0].value) == "self._tick_generator()" and len(attr_writes(P, "_tick_iter")) == 1
    ctx.ob(num, "K6", "a container drives exactly one generator, created once at construction", okit, ci, its[0] if its else ci.node, construct="self._tick_iter = self._tick_generator()",
           detail=f"{[stmt_text(n) for n in its]}; writers of _tick_iter: {len(attr_writes(P, '_tick_iter'))}")
    adv = [c for c in own_nodes(t.node) if isinstance(c, ast.Call) and norm.is_name(c.func, "next") and len(c.args) >= 1 and norm.U(c.args[0]) == "self._tick_iter"]
    others = [(f_, c) for f_, c in package_calls(P, "next") if c.args and norm.U(c.args[0]).endswith("._tick_iter") and not same_fn(f_, t)]
    ctx.count_min("next(self._tick_iter) in Container.tick", len(adv), 1)
    for f_, c in others:
        ctx.ob(num, "K1", "the generator of a container is advanced only by Container.tick()", False, f_, c, detail=f"in {f_.qual}")
    a = adv[0]
    ast_ = poolstmt(a)
    once = len(adv) == 1 and enclosing_for(a, t.node) is None and not any(isinstance(x, ast.While) for x in ancestors_of(a, t.node))
    # skipped only when the container has ended
    IN = g.facts(blocked={g.node_of(a).id})
    ex = IN.get(g.exit.id)
    skipped_only_ended = ex is None or norm.entails(ex, ("truth", "self._completed", True))
    ctx.ob(num, "K3", "tick() advances the generator exactly once, and does nothing only for a container that has ended", once and skipped_only_ended, t, a,
           construct="next(self._tick_iter)", detail=f"single advance, not in a loop: {once}; paths without an advance carry `self._completed`: {skipped_only_ended}")
    incs = [n for n in own_nodes(t.node) if isinstance(n, ast.AugAssign) and self_attr(n.target, "_ticks_elapsed")]
    okinc = len(incs) == 1 and isinstance(incs[0].op, ast.Add) and isinstance(incs[0].value, ast.Constant) and incs[0].value.value == 1 and g.control_equivalent(ast_, incs[0])
    ws = [w for w in attr_writes(P, "_ticks_elapsed") if not same_fn(w.fn, t) and not same_fn(w.fn, ci)]
    i0 = [n for n in own_nodes(ci.node) if (isinstance(n, ast.Assign) and any(self_attr(x, "_ticks_elapsed") for x in n.targets))
          or (isinstance(n, ast.AnnAssign) and self_attr(n.target, "_ticks_elapsed") and n.value is not None)]
    ok0 = len(i0) == 1 and isinstance(i0[0].value, ast.Constant) and i0[0].value.value == 0 and not isinstance(i0[0].value.value, bool)
    ctx.ob(num, "K3", "the elapsed-tick count of a container starts at 0 and grows by one with every advance of its generator (and only then)", okinc and not ws and ok0, t,
           incs[0] if incs else t.node, construct="self._ticks_elapsed += 1", detail=f"{[stmt_text(n) for n in incs]}; together with the advance: {okinc}; other writers: {[repr(w) for w in ws]}; starts at 0: {ok0}")
    te = P.fn(CT, "Container.ticks_elapsed")
    rs = [r for r in own_nodes(te.node) if isinstance(r, ast.Return)]
    ctx.ob(num, "K5", "ticks_elapsed() reports that count", len(rs) == 1 and rs[0].value is not None and norm.U(rs[0].value) == "self._ticks_elapsed", te, rs[0] if rs else te.node,
           detail=f"{[stmt_text(r) for r in rs]}")


def ancestors_of(n, stop):
    out = []
    p_ = parent(n)
    while p_ is not None and p_ is not stop:
        out.append(p_)
        p_ = parent(p_)
    return out


def poolstmt(n):
    while not isinstance(n, ast.stmt):
        n = parent(n)
    return n


def run(ctx):
    check_tick_method(ctx, 8)
    check_order(ctx, 8)
    check_scaling(ctx, 3)
    sh = check_plan(ctx)
    check_tick_body(ctx, sh)
    c02.check_suffix_slices(ctx, 8)
    c02.check_op_idx(ctx, 8)
    # "fails with OOM in exactly the first tick its demand exceeds its allocation": the frozen container is ended by the pool's killer, which
    # therefore has to run in every tick, after the containers ticked and before the ended ones are collected (C04#8)
    pool.ob_phases(ctx, 5)
    # the memory a container holds in a tick is what the generator set: the setter stores the value given (and books the difference), unconditionally (C04#2)
    from . import c04
    c04.check_delta(Renumber(ctx, {2: 4}), 2)
    # "otherwise succeeds after exactly the summed tick count": nothing ends a container that stays within its allocation while the pool fits (C04#5-#7)
    c04.check_kills(Renumber(ctx, {5: 5, 6: 5, 7: 5}))
