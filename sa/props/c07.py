"""C07 — runs are reproducible and every policy is evaluated on the same workload."""
from __future__ import annotations

import ast
from typing import Dict, List, Optional, Set, Tuple

from .. import norm
from ..model import own_nodes, stmt_text, parent, Func, AnalysisError
from ..util import attr_writes, cfg_of, calls_named, single_defs, reachable_funcs, package_calls
from ..cfg import MUTATORS
from .common import *

EXPLANATION = (
    "Static decision of the structural clauses of C07 over the whole package (template scheduler included; the plotting helper of "
    "tools.py, which never feeds a simulation, excluded).  (1) K11 no order-from-hash: no set/frozenset-typed expression (set "
    "displays and comprehensions, set()/frozenset() calls, set algebra, names and fields bound to such) is iterated, converted "
    "to a sequence, sorted, reduced or unpacked; the confirmed exceptions are the one-element pick in Container.get_pipeline_id "
    "(guarded by len == 1) and membership-only sets.  (2) no hash()/id(); random identifiers (uuid-based Node.id, DAG.dag_id) and "
    "the process-global container counter (container_id) never enter an ordering comparison or a sort/min/max key; every "
    "sort/sorted has a key unless it sorts registry names; a node identifier is a whole uuid4 (never a slice or other shortened form).  (3) randomness and clocks: no `random` module calls, no global numpy "
    "RNG; the only generators are np.random.default_rng(<seed parameter>); wall-clock values (time.*) exist only in the REST "
    "bridge and flow only into its timing_* statistics and log messages; no os.environ / os.urandom reads; what is stored under the key "
    "'random_seed' is a plain value or start + index, never an expression that can make two seeds equal.  (4) process-global "
    "state mutated at run time is exactly the confirmed table (Container.next_container_num -> identifiers only; the two "
    "scheduler registries, written by decorators at import; log formatters); no function is memoised; an instance created at module or class "
    "level belongs to a class without methods that store to self after construction.  (5) the generator depends only on its own "
    "parameters: its named parameters are the workload parameters, **kwargs is never read, every draw is a method call on self.rng, "
    "self.rng is assigned once from default_rng(random_seed) and random_seed flows nowhere else, workload.py imports nothing from "
    "executor/scheduler; missing parameters come from one literal table of defaults that is never stored into.  (6) run / gentrace / "
    "mkregression build the generator from the parameter dict itself; a workload object is handed to one run only; inside run_simulator the "
    "workload object is only stepped (run_one_tick(), once per tick, before the scheduler) and handed to nobody.")
UNDECIDED = ("bit-identity of two real processes (needs runs); stability of numpy's generator stream across versions; that different seeds give different "
             "workloads beyond the seed reaching default_rng")
ASSUMPTIONS = COMMON_ASSUMPTIONS + ["dicts and lists iterate in insertion order (language guarantee); numpy.random.Generator is deterministic for a given seed"]

SET_CTORS = {"set", "frozenset"}
ORDER_CONSUMERS = {"list", "tuple", "sorted", "min", "max", "next", "iter", "enumerate", "sum", "zip", "reversed"}
WORKLOAD_PARAMS = {"waiting_seconds_mean", "num_pipelines", "num_operators", "num_segs", "cpu_io_ratio", "random_seed", "batch_prob", "query_prob", "interactive_prob",
                   "ticks_per_second"}
# confirmed table of run-time mutated process-global state (one line of reason each)
GLOBAL_OK = {
    "Container.next_container_num": "monotone counter; flows only into container_id, which is used as an identifier (==, dict key, Suspend, to_dict, logs)",
    "INIT_ALGOS": "registry written by @register_scheduler_init at import time; keyed lookup only",
    "SCHEDULING_ALGOS": "registry written by @register_scheduler at import time; keyed lookup only",
}
EXCLUDED_FUNCS = {"sensitivity_analysis_plot_command"}   # plotting only; never feeds a simulation
IDENT_ATTRS = {"id", "dag_id", "container_id"}


def _funcs(P) -> List[Func]:
    return [f for f in P.all_funcs() if f.name not in EXCLUDED_FUNCS]


def _set_fields(P) -> Set[str]:
    """attribute names assigned a set-typed expression anywhere (self.returned = set())."""
    out = set()
    for f in _funcs(P):
        for n in own_nodes(f.node):
            if isinstance(n, (ast.Assign, ast.AnnAssign)) and n.value is not None:
                tg = n.targets if isinstance(n, ast.Assign) else [n.target]
                for t in tg:
                    if isinstance(t, ast.Attribute) and _is_set_expr(n.value, set(), set()):
                        out.add(t.attr)
    return out


def _is_set_expr(e: ast.expr, set_names: Set[str], set_fields: Set[str]) -> bool:
    if isinstance(e, (ast.Set, ast.SetComp)):
        return True
    if isinstance(e, ast.Call) and isinstance(e.func, ast.Name) and e.func.id in SET_CTORS:
        return True
    if isinstance(e, ast.Name) and e.id in set_names:
        return True
    if isinstance(e, ast.Attribute) and e.attr in set_fields:
        return True
    if isinstance(e, ast.IfExp):
        return _is_set_expr(e.body, set_names, set_fields) or _is_set_expr(e.orelse, set_names, set_fields)    # may be a set
    if isinstance(e, ast.BinOp) and isinstance(e.op, (ast.Sub, ast.BitOr, ast.BitAnd, ast.BitXor)):
        return _is_set_expr(e.left, set_names, set_fields) or _is_set_expr(e.right, set_names, set_fields)
    if isinstance(e, ast.Call) and isinstance(e.func, ast.Attribute) and e.func.attr in ("union", "intersection", "difference", "symmetric_difference", "copy") \
            and _is_set_expr(e.func.value, set_names, set_fields):
        return True
    return False


def _global_sets(P) -> Set[str]:
    """module-level names bound to a set-typed expression (ASSIGNABLE_STATES = frozenset({...})): set-typed wherever they are imported"""
    out: Set[str] = set()
    for m in P.real_modules():
        for k, v in m.module_assigns().items():
            if _is_set_expr(v, out, set()):
                out.add(k)
    return out


def _set_params(P, globs: Set[str], fields: Set[str]) -> Dict[str, Set[str]]:
    """function qualified name -> parameters that receive a set-typed argument at some call site of the package (one level, by callee
    name; a parameter that *may* be a set is treated as a set: iterating it lets the order of the result follow hash values)"""
    out: Dict[str, Set[str]] = {}
    by_name: Dict[str, List] = {}
    for f in _funcs(P):
        by_name.setdefault(f.name, []).append(f)
    for f in _funcs(P):
        for c in own_nodes(f.node):
            if not isinstance(c, ast.Call):
                continue
            cn = norm.call_name(c)
            for tgt in by_name.get(cn, []):
                params = tgt.params()
                if params and params[0] in ("self", "cls") and isinstance(c.func, ast.Attribute):
                    params = params[1:]
                for i, a in enumerate(c.args):
                    if i < len(params) and _is_set_expr(a, globs, fields):
                        out.setdefault(f"{tgt.mod.rel}::{tgt.qual}", set()).add(params[i])
                for kw_ in c.keywords:
                    if kw_.arg in params and _is_set_expr(kw_.value, globs, fields):
                        out.setdefault(f"{tgt.mod.rel}::{tgt.qual}", set()).add(kw_.arg)
    return out


def check_set_iteration(ctx, num=1):
    P = ctx.P
    fields = _set_fields(P)
    globs = _global_sets(P)
    setp = _set_params(P, globs, fields)
    n_sets = 0
    n_bad = 0
    for f in _funcs(P):
        names: Set[str] = set(globs) | setp.get(f"{f.mod.rel}::{f.qual}", set())
        changed = True
        while changed:
            changed = False
            for n in own_nodes(f.node):
                if isinstance(n, (ast.Assign, ast.AnnAssign)) and n.value is not None and _is_set_expr(n.value, names, fields):
                    for t in (n.targets if isinstance(n, ast.Assign) else [n.target]):
                        if isinstance(t, ast.Name) and t.id not in names:
                            names.add(t.id)
                            changed = True
        for n in own_nodes(f.node):
            if _is_set_expr(n, names, fields) if isinstance(n, ast.expr) else False:
                n_sets += 1
            sites = []
            if isinstance(n, (ast.For, ast.AsyncFor)) and _is_set_expr(n.iter, names, fields):
                sites.append((n, f"for loop over {norm.U(n.iter)}"))
            if isinstance(n, ast.comprehension) and _is_set_expr(n.iter, names, fields):
                # building another set / a membership structure from a set is order-free
                comp = parent(n)
                if not isinstance(comp, (ast.SetComp,)) and not (isinstance(comp, ast.DictComp)):
                    sites.append((comp, f"comprehension over {norm.U(n.iter)}"))
                elif isinstance(comp, ast.DictComp):
                    sites.append((comp, f"dict comprehension over {norm.U(n.iter)} (insertion order follows the set's order)"))
            if isinstance(n, ast.Call) and isinstance(n.func, ast.Name) and n.func.id in ORDER_CONSUMERS and n.args and _is_set_expr(n.args[0], names, fields):
                if n.func.id == "sorted" and norm.kwarg(n, "key") is None:
                    pass  # sorted() of a set with the natural total order of its elements is deterministic for str/int; flagged only for identifiers below
                else:
                    sites.append((n, f"{n.func.id}() of {norm.U(n.args[0])}"))
            if isinstance(n, ast.Assign) and isinstance(n.targets[0], (ast.Tuple, ast.List)) and _is_set_expr(n.value, names, fields):
                sites.append((n, f"unpacking of {norm.U(n.value)}"))
            if isinstance(n, ast.Starred) and _is_set_expr(n.value, names, fields):
                sites.append((n, f"*{norm.U(n.value)}"))
            if isinstance(n, ast.Call) and isinstance(n.func, ast.Attribute) and n.func.attr in ("extend", "extendleft", "writerows", "join") and len(n.args) == 1 \
                    and _is_set_expr(n.args[0], names, fields) and not _is_set_expr(n.func.value, names, fields):
                sites.append((n, f"{norm.U(n.func)}() of the set {norm.U(n.args[0])} (the elements are appended in the set's order)"))
            if isinstance(n, ast.AugAssign) and isinstance(n.op, ast.Add) and _is_set_expr(n.value, names, fields):
                sites.append((n, f"`+=` of the set {norm.U(n.value)} onto a sequence"))
            if isinstance(n, ast.Call) and isinstance(n.func, ast.Attribute) and n.func.attr == "pop" and not n.args and _is_set_expr(n.func.value, names, fields):
                sites.append((n, f"{norm.U(n)} (arbitrary element)"))
            for node, what in sites:
                # confirmed exception: one-element pick under len(s) == 1
                ok = False
                why = ""
                # a set that is known to hold exactly one element has no order to depend on
                sname = None
                if isinstance(node, ast.Call) and node.args:
                    a0 = node.args[0]
                    if isinstance(a0, ast.Call) and norm.call_name(a0) == "iter" and a0.args:
                        a0 = a0.args[0]
                    sname = norm.U(a0)
                elif isinstance(node, ast.Assign):
                    sname = norm.U(node.value)
                elif isinstance(node, (ast.For, ast.AsyncFor)):
                    sname = norm.U(node.iter)
                if sname:
                    g = cfg_of(f, subst_env=False)
                    st_ = node
                    while not isinstance(st_, ast.stmt):
                        st_ = parent(st_)
                    fs_ = g.facts_at(st_)
                    one = norm.entails(fs_, norm.mk_cmp("==", "1", f"len({sname})")) or (
                        (norm.entails(fs_, ("cmp", "<=", f"len({sname})", "1")) or norm.entails(fs_, ("cmp", "<", f"len({sname})", "2")))
                        and (norm.entails(fs_, ("truth", sname, True)) or norm.entails(fs_, ("cmp", "<", "0", f"len({sname})")) or norm.entails(fs_, ("cmp", "<=", "1", f"len({sname})"))))
                    if one:
                        ok, why = True, "picks from a set known to hold exactly one element (guarded by len(...) == 1)"
                if not ok:
                    n_bad += 1
                ctx.ob(num, "K11", "no decision or output depends on the iteration order of a set (which follows hash values of random ids / PYTHONHASHSEED)", ok, f, node,
                       detail=f"{what} in {f.qual}" + (f" — {why}" if why else ""))
    ctx.count_min("set-typed expressions in the package", n_sets, 3)
    if not n_bad:
        ctx.ob(num, "K11", "sets are only built and membership-tested", True, file="eudoxia", construct="order-consuming uses of sets", detail=f"{n_sets} set-typed expressions, set-typed fields {sorted(fields)}; 0 order-consuming uses outside the confirmed exception")


def check_identifiers(ctx, num=2):
    P = ctx.P
    bad = 0
    n_sorts = 0
    for f in _funcs(P):
        for n in own_nodes(f.node):
            if isinstance(n, ast.Call) and isinstance(n.func, ast.Name) and n.func.id in ("hash", "id") and len(n.args) == 1:
                bad += 1
                ctx.ob(num, "K11", "hash() / id() values (process- and seed-dependent) are not used", False, f, n, detail=f"{norm.U(n)} in {f.qual}")
            if isinstance(n, ast.Compare) and any(isinstance(o, (ast.Lt, ast.LtE, ast.Gt, ast.GtE)) for o in n.ops):
                for s in [n.left] + n.comparators:
                    for x in ast.walk(s):
                        if isinstance(x, ast.Attribute) and x.attr in IDENT_ATTRS:
                            bad += 1
                            ctx.ob(num, "K11", "identifiers (random uuids, the process-global container counter) are never compared for order", False, f, n, detail=f"{norm.U(n)} in {f.qual}")
            is_sort = isinstance(n, ast.Call) and ((isinstance(n.func, ast.Attribute) and n.func.attr == "sort") or (isinstance(n.func, ast.Name) and n.func.id in ("sorted", "min", "max")))
            if not is_sort:
                continue
            if isinstance(n.func, ast.Name) and n.func.id in ("min", "max") and len(n.args) >= 2:
                continue  # min/max of explicit numeric operands
            n_sorts += 1
            key = norm.kwarg(n, "key")
            if key is not None:
                idk = [x for x in ast.walk(key) if isinstance(x, ast.Attribute) and x.attr in IDENT_ATTRS]
                ok = not idk
                if not ok:
                    bad += 1
                ctx.ob(num, "K11", "no sort / min / max key involves an identifier", ok, f, n, detail=f"{norm.U(n)[:120]}")
            else:
                # whole-element comparison: a problem only if the elements carry identifiers (ties would be broken by them)
                arg = n.args[0] if n.args else (n.func.value if isinstance(n.func, ast.Attribute) else None)
                lst = norm.U(arg) if arg is not None else ""
                entries = [c.args[0] for c in own_nodes(f.node) if isinstance(c, ast.Call) and isinstance(c.func, ast.Attribute) and c.func.attr == "append"
                           and norm.U(c.func.value) == lst and c.args]
                idk = [x for e in entries for x in ast.walk(e) if isinstance(x, ast.Attribute) and x.attr in IDENT_ATTRS]
                ok = not idk
                if not ok:
                    bad += 1
                ctx.ob(num, "K11", "a sort without a key compares whole elements: its elements must not carry identifiers (random uuids, container numbers), which would break ties",
                       ok, f, n, detail=f"{norm.U(n)[:120]} in {f.qual}; identifier components of the entries: {[norm.U(x) for x in idk]}")
    ctx.count_min("sort/min/max sites", n_sorts, 2)
    # node identifiers are whole uuid4 values: the schedulers tell operators apart by id across pipelines, so two draws must never give one id
    from ..util import attr_writes
    ws = [w for w in attr_writes(P, "id", include_mutation=False) if w.fn.mod.rel == "eudoxia/utils/dag.py" and w.fn.cls == "Node"]
    for w in ws:
        v = getattr(w.node, "value", None)
        whole = False
        e = v
        if isinstance(e, ast.Call) and isinstance(e.func, ast.Name) and e.func.id == "str" and len(e.args) == 1:
            e = e.args[0]
        if isinstance(e, ast.Attribute) and e.attr in ("hex", "int", "urn", "bytes"):
            e = e.value
        if isinstance(e, ast.Call) and norm.U(e.func) in ("uuid.uuid4", "uuid4") and not e.args and not e.keywords:
            whole = True
        ctx.ob(num, "K11", "a node identifier is a whole uuid4 (never a slice or another shortened form of one): whatever values are drawn, distinct nodes get distinct identifiers",
               whole, w.fn, w.node, construct="Node.id = uuid.uuid4()", detail=f"{stmt_text(w.node)}")
    ctx.ob(num, "K11", "node identifiers are assigned in one place", len(ws) == 1, None, None, file="eudoxia/utils/dag.py", construct="Node.id writers", detail=f"{[repr(w) for w in ws]}")
    # uses of container_id: identifier contexts only
    for f in _funcs(P):
        for n in own_nodes(f.node):
            if isinstance(n, ast.Attribute) and n.attr == "container_id" and isinstance(n.ctx, ast.Load):
                p_ = parent(n)
                ok = True
                why = "identifier use"
                if isinstance(p_, ast.BinOp):
                    ok, why = False, f"arithmetic: {norm.U(p_)}"
                elif isinstance(p_, ast.Tuple) and isinstance(parent(p_), ast.Call) and norm.call_name(parent(p_)) == "append":
                    # tuple appended to a list that is later sorted without key
                    lst = parent(p_).func.value
                    srt = [c for c in own_nodes(f.node) if isinstance(c, ast.Call) and isinstance(c.func, ast.Attribute) and c.func.attr == "sort" and norm.U(c.func.value) == norm.U(lst)
                           and norm.kwarg(c, "key") is None]
                    if srt:
                        ok, why = False, f"component of entries of `{norm.U(lst)}`, which is sorted as whole tuples"
                if not ok:
                    bad += 1
                    ctx.ob(num, "K11", "container ids (numbered by a never-reset process-global counter) are used only as identifiers", False, f, n, detail=f"{why} in {f.qual}")
    if not bad:
        ctx.ob(num, "K11", "identifiers are used only for equality, membership, dict keys, serialisation and logs", True, file="eudoxia", construct="identifier uses",
               detail=f"{n_sorts} sort/min/max sites checked; 0 ordering uses of {sorted(IDENT_ATTRS)}; 0 hash()/id() calls")


def check_randomness(ctx, num=3):
    P = ctx.P
    bad = 0
    rngs = 0
    for f in _funcs(P) + [Func(m, "<module>", m.tree, None) for m in P.modules.values()]:
        it = own_nodes(f.node) if f.qual != "<module>" else (x for st in f.node.body if not isinstance(st, (ast.FunctionDef, ast.ClassDef, ast.AsyncFunctionDef)) for x in ast.walk(st))
        for n in it:
            if not isinstance(n, ast.Call):
                continue
            t = norm.U(n.func)
            if t.startswith("random."):
                bad += 1
                ctx.ob(num, "K11", "the `random` module (process-global, unseeded) is never called", False, f, n, detail=f"{norm.U(n)} in {f.qual}")
            elif (t.startswith("np.random.") or t.startswith("numpy.random.")) and not t.endswith(".default_rng"):
                bad += 1
                ctx.ob(num, "K11", "numpy's global RNG is never used", False, f, n, detail=f"{norm.U(n)} in {f.qual}")
            elif t.endswith("default_rng"):
                rngs += 1
                ok = len(n.args) == 1 and isinstance(n.args[0], ast.Name) and "seed" in n.args[0].id
                if not ok:
                    bad += 1
                ctx.ob(num, "K11", "every random generator is default_rng(<seed parameter>)", ok, f, n, detail=f"{norm.U(n)} in {f.qual}")
            elif t in ("os.urandom", "os.getenv", "os.environ.get", "uuid.uuid1", "secrets.token_hex", "secrets.randbelow"):
                bad += 1
                ctx.ob(num, "K11", "no environment / entropy reads", False, f, n, detail=f"{norm.U(n)} in {f.qual}")
            elif t.startswith(("time.", "datetime.")) and t not in ("time.sleep",):
                ok = f.mod.rel == REST
                if not ok:
                    bad += 1
                    ctx.ob(num, "K11", "wall-clock time is read only by the REST bridge (for its timing statistics)", False, f, n, detail=f"{norm.U(n)} in {f.mod.rel}::{f.qual}")
        if f.qual != "<module>":
            for n in own_nodes(f.node):
                if isinstance(n, ast.Attribute) and norm.U(n) == "os.environ":
                    bad += 1
                    ctx.ob(num, "K11", "no environment reads", False, f, n, detail=f"os.environ in {f.qual}")
    ctx.count_min("default_rng construction sites", rngs, 2)
    # taint of wall-clock values inside the REST bridge
    for q in ("rest_scheduler", "rest_init"):
        f = P.fn(REST, q)
        ctx.touch(f)
        tainted: Set[str] = set()
        changed = True
        while changed:
            changed = False
            for n in own_nodes(f.node):
                if isinstance(n, (ast.Assign, ast.AugAssign)):
                    v = n.value
                    has = any((isinstance(x, ast.Call) and norm.U(x.func).startswith("time.")) or (isinstance(x, ast.Name) and x.id in tainted) or
                              (isinstance(x, ast.Attribute) and x.attr.startswith("timing_")) for x in ast.walk(v))
                    if has:
                        for t in (n.targets if isinstance(n, ast.Assign) else [n.target]):
                            if isinstance(t, ast.Name) and t.id not in tainted:
                                tainted.add(t.id)
                                changed = True
        leaks = []
        for n in own_nodes(f.node):
            if isinstance(n, ast.Call) and norm.U(n.func).startswith("time."):
                st = n
                while not isinstance(st, ast.stmt):
                    st = parent(st)
                okc = False
                if isinstance(st, (ast.Assign, ast.AugAssign)):
                    tg = st.targets if isinstance(st, ast.Assign) else [st.target]
                    okc = all((isinstance(t, ast.Name) and t.id in tainted) or (isinstance(t, ast.Attribute) and t.attr.startswith("timing_")) for t in tg)
                if isinstance(st, ast.Expr) and isinstance(st.value, ast.Call) and norm.U(st.value.func).startswith("logger."):
                    okc = True
                if not okc:
                    leaks.append((st, norm.U(n)))
            if isinstance(n, ast.Name) and n.id in tainted and isinstance(n.ctx, ast.Load):
                st = n
                while not isinstance(st, ast.stmt):
                    st = parent(st)
                if isinstance(st, (ast.Assign, ast.AugAssign)):
                    tg = st.targets if isinstance(st, ast.Assign) else [st.target]
                    if all((isinstance(t, ast.Name) and t.id in tainted) or (isinstance(t, ast.Attribute) and t.attr.startswith("timing_")) for t in tg):
                        continue
                if isinstance(st, ast.Expr) and isinstance(st.value, ast.Call) and norm.U(st.value.func).startswith("logger."):
                    continue
                leaks.append((st, n.id))
            if isinstance(n, ast.Attribute) and n.attr.startswith("timing_") and isinstance(n.ctx, ast.Load):
                st = n
                while not isinstance(st, ast.stmt):
                    st = parent(st)
                if isinstance(st, (ast.AugAssign, ast.Assign)) or (isinstance(st, ast.Expr) and isinstance(st.value, ast.Call) and norm.U(st.value.func).startswith("logger.")):
                    continue
                leaks.append((st, n.attr))
        for st, nm in leaks:
            bad += 1
            ctx.ob(num, "K11", "wall-clock values flow only into the timing_* statistics and log messages (never into a decision, the payload or a return value)", False, f, st,
                   detail=f"`{nm}` (derived from time.*) used in `{stmt_text(st)}`")
        if not leaks:
            ctx.ob(num, "K11", "wall-clock values flow only into the timing_* statistics and log messages", True, f, f.node, construct=f"time taint in {q}", detail=f"tainted locals: {sorted(tainted)}")


def check_globals(ctx, num=4):
    P = ctx.P
    found: Dict[str, List[Tuple[Func, ast.AST]]] = {}
    for m in P.modules.values():
        mod_names = set()
        for st in m.tree.body:
            if isinstance(st, (ast.Assign, ast.AnnAssign)):
                for t in (st.targets if isinstance(st, ast.Assign) else [st.target]):
                    if isinstance(t, ast.Name):
                        mod_names.add(t.id)
        class_attrs = {}
        for c in m.classes.values():
            for st in c.node.body:
                if isinstance(st, (ast.Assign, ast.AnnAssign)):
                    for t in (st.targets if isinstance(st, ast.Assign) else [st.target]):
                        if isinstance(t, ast.Name):
                            class_attrs.setdefault(c.name, set()).add(t.id)
        for f in m.funcs.values():
            if f.name in EXCLUDED_FUNCS:
                continue
            local_binds = {a for a in f.params()}
            for n in own_nodes(f.node):
                if isinstance(n, (ast.Assign, ast.AugAssign, ast.AnnAssign, ast.For)):
                    for t in (n.targets if isinstance(n, ast.Assign) else [n.target]):
                        for x in ast.walk(t):
                            if isinstance(x, ast.Name) and isinstance(x.ctx, ast.Store):
                                local_binds.add(x.id)
            globs = set()
            for n in own_nodes(f.node):
                if isinstance(n, ast.Global):
                    globs |= set(n.names)
            for n in own_nodes(f.node):
                key = None
                if isinstance(n, (ast.Assign, ast.AugAssign, ast.Delete)):
                    for t in (n.targets if isinstance(n, (ast.Assign, ast.Delete)) else [n.target]):
                        if isinstance(t, ast.Name) and t.id in globs:
                            key = t.id
                        if isinstance(t, ast.Attribute) and isinstance(t.value, ast.Name) and t.value.id in class_attrs and t.attr in class_attrs[t.value.id]:
                            key = f"{t.value.id}.{t.attr}"
                        if isinstance(t, ast.Attribute) and isinstance(t.value, ast.Name) and t.value.id in P_classes(P) and t.value.id not in local_binds and t.value.id != "self":
                            key = key or f"{t.value.id}.{t.attr}"
                        if isinstance(t, ast.Subscript):
                            b = t.value
                            if isinstance(b, ast.Name) and b.id in mod_names and b.id not in local_binds:
                                key = b.id
                if isinstance(n, ast.Call) and isinstance(n.func, ast.Attribute) and n.func.attr in MUTATORS and isinstance(n.func.value, ast.Name) \
                        and n.func.value.id in mod_names and n.func.value.id not in local_binds:
                    key = n.func.value.id
                if key:
                    found.setdefault(key, []).append((f, n))
    ctx.count_min("run-time mutated process-global objects", len(found), 3)
    for key, sites in sorted(found.items()):
        ok = key in GLOBAL_OK
        f, n = sites[0]
        ctx.ob(num, "K11", "process-global state that is mutated at run time is limited to the confirmed table (anything else can make a run depend on what ran before it in the process)",
               ok, f, n, construct=f"global {key}", detail=(GLOBAL_OK[key] if ok else f"`{key}` is module- or class-level state written in {sorted({s[0].qual for s in sites})}; not in the confirmed table {sorted(GLOBAL_OK)}"))
    # memoised functions are process-global state too (the cached value outlives the run, and a cached mutable value is shared by all callers)
    MEMO = {"lru_cache", "cache", "cached_property", "memoize", "memoized"}
    memo = []
    for m in P.real_modules():
        for f in m.funcs.values():
            for dec in f.node.decorator_list:
                dn = dec.func if isinstance(dec, ast.Call) else dec
                nm_ = dn.attr if isinstance(dn, ast.Attribute) else (dn.id if isinstance(dn, ast.Name) else "")
                if nm_ in MEMO:
                    memo.append((f, dec, nm_))
    for f, dec, nm_ in memo:
        ctx.ob(num, "K11", "no function of the package is memoised (a cache is process-global state: what an earlier run computed — or wrote into a cached mutable value — "
               "reaches every later run)", False, f, dec, construct=f"@{nm_} on {f.qual}", detail=f"{f.mod.rel}::{f.qual} is decorated with {norm.U(dec)}")
    if not memo:
        ctx.ob(num, "K11", "no function of the package is memoised", True, file="eudoxia", construct="memoisation decorators", detail="0 functions decorated with " + "/".join(sorted(MEMO)))
    # objects created once per process (module- or class-level `X = Cls(..)`, or containers of such) are process-global state when their class
    # keeps changing them after construction: a cache filled in one run is read by the next (the seeded "shared prototype segments" change)
    classes = {}
    for m in P.real_modules():
        for cname, c in m.classes.items():
            classes[cname] = c
    shared = []
    for m in P.real_modules():
        scopes = [("", m.tree.body)] + [(c.name + ".", c.node.body) for c in m.classes.values()]
        for prefix, body in scopes:
            for st in body:
                if isinstance(st, (ast.Assign, ast.AnnAssign)) and getattr(st, "value", None) is not None:
                    for c_ in ast.walk(st.value):
                        if isinstance(c_, ast.Call) and isinstance(c_.func, ast.Name) and c_.func.id in classes and not any(
                                isinstance(b, ast.Name) and b.id in ("Enum", "IntEnum", "NamedTuple", "Exception") for b in classes[c_.func.id].node.bases):
                            tg = st.targets[0] if isinstance(st, ast.Assign) else st.target
                            shared.append((m, prefix + norm.U(tg), c_.func.id, st))
    for m, name, cname, st in shared:
        c = classes[cname]
        writers = []
        for mn, meth in c.methods.items():
            if mn in ("__init__", "__post_init__", "__new__"):
                continue
            for n in own_nodes(meth.node):
                tg = []
                if isinstance(n, (ast.Assign, ast.Delete)):
                    tg = n.targets
                elif isinstance(n, (ast.AugAssign, ast.AnnAssign)):
                    tg = [n.target]
                for t in tg:
                    for x in ast.walk(t):
                        if isinstance(x, ast.Attribute) and norm.is_name(x.value, "self") and isinstance(x.ctx, (ast.Store, ast.Del)):
                            writers.append(f"{cname}.{mn}")
                        if isinstance(x, ast.Subscript) and isinstance(x.ctx, (ast.Store, ast.Del)) and isinstance(x.value, ast.Attribute) and norm.is_name(x.value.value, "self"):
                            writers.append(f"{cname}.{mn}")
                if isinstance(n, ast.Call) and isinstance(n.func, ast.Attribute) and n.func.attr in MUTATORS and isinstance(n.func.value, ast.Attribute) \
                        and norm.is_name(n.func.value.value, "self"):
                    writers.append(f"{cname}.{mn}")
        ctx.ob(num, "K11", "an object that lives as long as the process (module- or class-level instance) is never changed after it was built", not writers,
               Func(m, "<module>", m.tree, None), st, construct=f"process-wide {name} = {cname}(..)",
               detail=f"{cname} objects are written by {sorted(set(writers))} after construction" if writers else f"{cname} has no method that stores to its fields after construction")
    # the container counter flows only into container_id
    ci = P.fn(CT, "Container.__init__")
    reads = [n for n in own_nodes(ci.node) if isinstance(n, ast.Attribute) and n.attr == "next_container_num" and isinstance(n.ctx, ast.Load)]
    others = [(f, n) for f in _funcs(P) for n in own_nodes(f.node) if isinstance(n, ast.Attribute) and n.attr == "next_container_num" and not same_fn(f, ci)]
    okr = all(isinstance(parent(parent(r)), ast.JoinedStr) or isinstance(parent(r), (ast.AugAssign,)) for r in reads)
    ctx.ob(num, "K11", "the process-global container counter is read only to form container ids", okr and not others, ci, reads[0] if reads else ci.node, construct="uses of next_container_num",
           detail=f"{len(reads)} read(s) in Container.__init__; reads elsewhere: {[f.qual for f, _ in others]}")


def P_classes(P) -> Set[str]:
    out = set()
    for m in P.modules.values():
        out |= set(m.classes)
    return out


def check_generator(ctx, num=5):
    P = ctx.P
    ini = P.fn(WL, "WorkloadGenerator.__init__")
    ctx.touch(ini)
    named = [p for p in ini.params() if p != "self"]
    extra = [p for p in named if p not in WORKLOAD_PARAMS]
    ctx.ob(num, "K10", "the generator's named parameters are workload parameters only (tick rate and seed included) — no executor or scheduler setting reaches it", not extra, ini, ini.node,
           construct="WorkloadGenerator.__init__ signature", detail=f"named: {named}; not workload parameters: {extra}")
    kw = ini.node.args.kwarg.arg if ini.node.args.kwarg else None
    cls = P.cls(WL, "WorkloadGenerator")
    loads = []
    for m in cls.methods.values():
        for n in own_nodes(m.node):
            if kw and isinstance(n, ast.Name) and n.id == kw and isinstance(n.ctx, ast.Load):
                loads.append((m, n))
            if isinstance(n, ast.Attribute) and n.attr in ("params", "executor", "scheduler") and norm.is_name(n.value, "self"):
                loads.append((m, n))
    ctx.ob(num, "K10", "the catch-all **kwargs (which receives the executor/scheduler settings) is never read", not loads, ini, loads[0][1] if loads else ini.node, construct="**kwargs never read",
           detail=f"{[(m.qual, norm.U(n)) for m, n in loads]}")
    ws = attr_writes(P, "rng")
    ws = [w for w in ws if w.fn.cls == "WorkloadGenerator"]
    okr = len(ws) == 1 and w_is(ws[0], "WorkloadGenerator.__init__") and norm.U(ws[0].node.value) == "np.random.default_rng(random_seed)"
    ctx.ob(num, "K6", "self.rng is assigned once, from default_rng(random_seed)", okr, ini, ws[0].node if ws else ini.node, construct="self.rng = np.random.default_rng(random_seed)", detail=f"{[repr(w) for w in ws]}")
    seed_uses = [n for n in own_nodes(ini.node) if isinstance(n, ast.Name) and n.id == "random_seed" and isinstance(n.ctx, ast.Load)]
    ctx.ob(num, "K6", "the seed flows nowhere else", len(seed_uses) == 1, ini, ini.node, construct="uses of random_seed", detail=f"{len(seed_uses)} use(s)")
    # every draw is a method call on self.rng
    draws = 0
    for m in cls.methods.values():
        for n in own_nodes(m.node):
            if isinstance(n, ast.Call) and isinstance(n.func, ast.Attribute) and n.func.attr in ("normal", "choice", "uniform", "integers", "random", "shuffle", "permutation", "poisson", "exponential"):
                draws += 1
                ok = norm.U(n.func.value) == "self.rng"
                ctx.ob(num, "K11", "every random draw of the generator is a method call on its own seeded generator", ok, m, n, detail=f"{norm.U(n)[:100]}")
    ctx.count_min("random draws in WorkloadGenerator", draws, 4)
    m = P.mod(WL)
    bad = []
    for st in ast.walk(m.tree):
        if isinstance(st, ast.ImportFrom) and st.module and ("executor" in st.module or "scheduler" in st.module or "simulator" in st.module):
            bad.append(st.module)
        if isinstance(st, ast.Import) and any("executor" in a.name or "scheduler" in a.name for a in st.names):
            bad.append(norm.U(st))
    ctx.ob(num, "K11", "workload.py imports nothing from the executor, the schedulers or the simulator", not bad, file=WL, construct="imports of workload.py", detail=f"{bad}")
    # module-level / class-level mutable state in the generator
    # (covered by check_globals)


def w_is(w, qual: str) -> bool:
    return w.fn.qual == qual


def check_construction(ctx, num=6):
    P = ctx.P
    for rel, q in ((SIM, "run_simulator"), (MAIN, "gentrace_command"), (MAIN, "mkregression_command")):
        f = P.fn(rel, q)
        ctx.touch(f)
        cs = calls_named(f, "WorkloadGenerator")
        ok = len(cs) == 1 and not cs[0].args and len(cs[0].keywords) == 1 and cs[0].keywords[0].arg is None and isinstance(cs[0].keywords[0].value, ast.Name)
        if ok:
            # the dict is the (defaults-completed) parameter dict: one of its definitions is parse_args_with_defaults(...)
            nm = cs[0].keywords[0].value.id
            ok = any(isinstance(n, ast.Assign) and norm.is_name(n.targets[0], nm) and isinstance(n.value, ast.Call) and norm.call_name(n.value) == "parse_args_with_defaults"
                     for n in own_nodes(f.node))
        ctx.ob(num, "K6", f"{q} builds the generator from the parameter dict itself (WorkloadGenerator(**params)), not from executor or scheduler objects", ok, f, cs[0] if cs else f.node,
               detail=f"{[norm.U(c) for c in cs]}")
    # the same dict feeds executor and scheduler: the generator cannot see anything they add
    f = P.fn(SIM, "run_simulator")
    g = cfg_of(f, subst_env=False)
    cs = calls_named(f, "WorkloadGenerator")
    ex = calls_named(f, "Executor")
    if cs and ex:
        ctx.ob(num, "K3", "the generator is built before executor and scheduler exist", g.node_of(cs[0]).id != g.node_of(ex[0]).id and before(f, cs[0], ex[0]), f, cs[0],
               construct="construction order", detail=f"generator at L{cs[0].lineno}, executor at L{ex[0].lineno}")


def check_workload_per_run(ctx, num=6):
    """A workload object is a consumable stream (random generator state, trace cursor): "the same workload for every policy" means a workload
    built afresh from the same parameters for every run, never one object handed to several runs.  Every `run_simulator(.., workload=W)` in
    the package: W is absent / None / constructed in the call, or a name bound on every way to the call since the previous run (in
    particular inside the loop that makes the calls)."""
    P = ctx.P
    n_sites = 0
    for f in P.all_funcs(False):
        calls = [c for c in own_nodes(f.node) if isinstance(c, ast.Call) and norm.call_name(c) == "run_simulator"]
        if not calls:
            continue
        uses = {}
        for c in calls:
            w = norm.kwarg(c, "workload", 1)
            if w is None or (isinstance(w, ast.Constant) and w.value is None) or isinstance(w, ast.Call):
                continue
            n_sites += 1
            ok, d = False, f"workload={norm.U(w)}"
            if isinstance(w, ast.Name):
                binds = [n for n in own_nodes(f.node) if isinstance(n, ast.Name) and n.id == w.id and isinstance(n.ctx, ast.Store)]
                # innermost loop around the call: the name must be bound inside it
                lp = parent(c)
                while lp is not None and lp is not f.node and not isinstance(lp, (ast.For, ast.While, ast.AsyncFor)):
                    lp = parent(lp)
                in_loop = lp is not None and lp is not f.node
                if in_loop:
                    ok = any(any(b is x for x in ast.walk(lp)) for b in binds)
                    d += f"; the call is inside `{stmt_text(lp)}`; `{w.id}` is bound inside that loop: {ok}"
                else:
                    uses.setdefault(w.id, []).append(c)
                    ok = len(uses[w.id]) == 1 or len(binds) >= len(uses[w.id])
                    d += f"; runs using `{w.id}` in this function: {len(uses[w.id])}, bindings of it: {len(binds)}"
                if w.id in f.params():
                    ok = True     # the caller's object: judged at the caller's call
            ctx.ob(num, "K3", "a workload object is handed to one run only (every run gets a workload built afresh from the same parameters)", ok, f, c,
                   construct="run_simulator(.., workload=<fresh object>)", detail=d)
    ctx.ob(num, "K3", "run_simulator call sites that pass a workload object were examined", True, None, None, construct="workload argument sites",
           detail=f"{n_sites} site(s) pass a named workload object", nontrivial=False, file=SIM)


def check_defaults(ctx, num=5):
    """What a parameter file leaves out is filled in from one fixed table: a default never depends on what the file does say (a workload
    default computed from an executor or scheduler setting would tie the workload to the cluster it is run on)."""
    P = ctx.P
    f = P.fn(SIM, "parse_args_with_defaults")
    ctx.touch(f)
    defs = [n for n in own_nodes(f.node) if isinstance(n, ast.Assign) and len(n.targets) == 1 and isinstance(n.targets[0], ast.Name)
            and isinstance(n.value, ast.Call) and norm.call_name(n.value) == "get_param_defaults"]
    calls = [c for c in own_nodes(f.node) if isinstance(c, ast.Call) and norm.call_name(c) == "get_param_defaults"]
    ctx.ob(num, "K6", "missing parameters are filled in from get_param_defaults()", len(calls) == 1, f, calls[0] if calls else f.node, construct="get_param_defaults()",
           detail=f"{[stmt_text(d) for d in calls]}")
    if len(calls) != 1:
        return
    bad = []
    D = defs[0].targets[0].id if len(defs) == 1 else None       # used on the spot (`for k, v in get_param_defaults().items()`): nothing can be stored into it
    if D is None:
        defs = [calls[0]]
    for n in (own_nodes(f.node) if D is not None else []):
        tg = []
        if isinstance(n, (ast.Assign, ast.Delete)):
            tg = n.targets
        elif isinstance(n, (ast.AugAssign, ast.AnnAssign)):
            tg = [n.target]
        for t in tg:
            if isinstance(t, ast.Subscript) and norm.is_name(t.value, D):
                bad.append(n)
            if isinstance(t, ast.Name) and t.id == D and n is not defs[0]:
                bad.append(n)
        if isinstance(n, ast.Call) and isinstance(n.func, ast.Attribute) and norm.is_name(n.func.value, D) and n.func.attr in ("update", "pop", "setdefault", "clear", "popitem", "__setitem__"):
            bad.append(n)
    ctx.ob(num, "K1", "the table of defaults is used as it is: no entry is computed from the parameters that were supplied", not bad, f, bad[0] if bad else defs[0],
           construct=f"no store to {D}[..]", detail=f"{[stmt_text(b)[:90] for b in bad]}" if bad else "the defaults table is only read")
    gd = P.fn(SIM, "get_param_defaults")
    ctx.touch(gd)
    okp = not [p_ for p_ in gd.params()]
    ann = {id(x) for a_ in ([gd.node.returns] if gd.node.returns is not None else []) + [n.annotation for n in own_nodes(gd.node) if isinstance(n, ast.AnnAssign)] for x in ast.walk(a_)}
    reads = sorted({x.id for x in own_nodes(gd.node) if isinstance(x, ast.Name) and isinstance(x.ctx, ast.Load) and id(x) not in ann}
                   - {"Priority", "True", "False", "None", "dict", "float", "int"})
    local = {x.id for x in own_nodes(gd.node) if isinstance(x, ast.Name) and isinstance(x.ctx, ast.Store)}
    ctx.ob(num, "K10", "get_param_defaults() takes no argument and computes its table from literals only", okp and not (set(reads) - local), gd, gd.node,
           construct="constant defaults", detail=f"parameters: {gd.params()}; names read: {reads}")


def check_seed_untouched(ctx, num=3):
    """`different seeds give different workloads`: on its way from the parameters to default_rng the seed is only handed on.  Wherever the package stores
    under the key 'random_seed', the value stored is a plain name / field / literal — never an expression computed from a seed (a modulus, a
    truncation, `or <default>` merge distinct seeds)."""
    P = ctx.P
    n = 0
    for f in _funcs(P):
        for st in own_nodes(f.node):
            tg = st.targets if isinstance(st, ast.Assign) else ([st.target] if isinstance(st, (ast.AugAssign, ast.AnnAssign)) else [])
            for t in tg:
                if isinstance(t, ast.Subscript) and isinstance(t.slice, ast.Constant) and t.slice.value == "random_seed":
                    n += 1
                    v = getattr(st, "value", None)
                    plain = isinstance(st, ast.Assign) and v is not None and (isinstance(v, (ast.Name, ast.Constant)) or norm.attr_chain(v) is not None
                                                                          or (isinstance(v, ast.BinOp) and isinstance(v.op, ast.Add) and all(
                                                                              isinstance(x, (ast.Name, ast.Constant)) or norm.attr_chain(x) is not None for x in (v.left, v.right))))
                    ctx.ob(num, "K6", "a seed is handed on as it is (or as start + index): what is stored under 'random_seed' is never computed from a seed by an operation that can "
                           "make two seeds equal", plain, f, st, construct="store to [..]['random_seed']", detail=stmt_text(st))
    ctx.ob(num, "K6", "the stores under the key 'random_seed' were examined", n >= 1, None, None, file=SIM, construct="'random_seed' stores", detail=f"{n} store(s)", nontrivial=False)


def check_workload_driven_by_ticks(ctx, num=6):
    """The workload a run sees must not depend on the cluster or the policy it is run with: inside run_simulator the workload object is
    stepped once per tick (C06#3) and nothing else is ever asked of it or done to it — the executor's or scheduler's state cannot steer it."""
    P = ctx.P
    f = P.fn(SIM, "run_simulator")
    ctx.touch(f)
    ps = f.params()
    w = ps[1] if len(ps) > 1 else "workload"
    n_ok = 0
    for n in own_nodes(f.node):
        if not (isinstance(n, ast.Name) and n.id == w):
            continue
        p_ = parent(n)
        ok = isinstance(n.ctx, ast.Store)
        how = "bound"
        if isinstance(n.ctx, ast.Load):
            if isinstance(p_, ast.Attribute) and p_.value is n and p_.attr == "run_one_tick" and isinstance(parent(p_), ast.Call) and parent(p_).func is p_ \
                    and not parent(p_).args and not parent(p_).keywords:
                ok, how = True, "stepped"
            elif isinstance(p_, ast.Compare) and all(isinstance(o, (ast.Is, ast.IsNot)) for o in p_.ops):
                ok, how = True, "tested for None"
            else:
                how = f"used as `{norm.U(p_)[:80]}`"
        if ok:
            n_ok += 1
        else:
            ctx.ob(num, "K1", "inside a run the workload object is only stepped (`workload.run_one_tick()`): nothing else is asked of it, and it is handed to nobody", False, f, n,
                   construct="uses of the workload object in run_simulator", detail=how)
    ctx.ob(num, "K1", "inside a run the workload object is only stepped (`workload.run_one_tick()`): nothing else is asked of it, and it is handed to nobody", n_ok >= 3, f, f.node,
           construct="uses of the workload object in run_simulator", detail=f"{n_ok} admissible use(s)")
    from . import c06
    c06.check_main_loop(Renumber(ctx, {3: num}), 3)       # ... once per tick, unconditionally, before the scheduler


def run(ctx):
    check_seed_untouched(ctx, 3)
    check_workload_driven_by_ticks(ctx, 6)
    check_defaults(ctx, 5)
    check_workload_per_run(ctx, 6)
    check_set_iteration(ctx, 1)
    check_identifiers(ctx, 2)
    check_randomness(ctx, 3)
    check_globals(ctx, 4)
    check_generator(ctx, 5)
    check_construction(ctx, 6)
