"""C02 — operator lifecycle follows the documented state machine; completion is final."""
from __future__ import annotations

import ast
from typing import Dict, List, Optional, Set

from .. import norm
from ..model import AnalysisError, own_nodes, parent, stmt_text
from ..util import attr_writes, cfg_of, calls_named, package_calls, writer_funcs
from .common import *

EXPLANATION = (
    "Static decision of the structural clauses of C02 on the current source of /repo: (1) the literal transition table "
    "and the state enum equal the machine in the property text (spec table written in the checker from the statement, "
    "never read from the code); (2) in PipelineRuntimeStatus.transition every store to operator_states/state_counts is "
    "reached only with the first result of check_transition(operator,new_state) asserted true (must-facts on the CFG), "
    "the three updates happen exactly once on every accepted path and the old state is read before it is overwritten; "
    "(3) package-wide writer inventory of operator_states/state_counts; (4) Assignment.__init__ transitions every "
    "element of its ops parameter to ASSIGNED on every path; (5) Container(...) is constructed at exactly one site, "
    "once per element of the assignments parameter; (6) kill/suspend_container/suspend_container_tick touch exactly "
    "the suffix operators[_current_op_idx:]; (7) _current_op_idx is advanced only together with the COMPLETED "
    "transition; (8) the target states used by the container are those of the machine. Together these are sufficient "
    "for: a refused change raises before any mutation, COMPLETED is terminal, a completed operator can never be put "
    "into an Assignment (Assignment construction would raise), at most one live container per operator.")
UNDECIDED = ("nothing is executed: the exhaustive request sequences of the quantifier are replaced by the guard argument, "
             "which covers all sequences; histories of full simulations are not replayed")
ASSUMPTIONS = COMMON_ASSUMPTIONS

SPEC = {
    "PENDING": {"ASSIGNED"},
    "ASSIGNED": {"RUNNING", "SUSPENDING", "FAILED"},
    "RUNNING": {"COMPLETED", "FAILED"},
    "SUSPENDING": {"PENDING"},
    "COMPLETED": set(),
    "FAILED": {"ASSIGNED"},
}


def read_enum_members(P, rel, name) -> List[str]:
    c = P.cls(rel, name)
    out = []
    for st in c.node.body:
        if isinstance(st, ast.Assign) and len(st.targets) == 1 and isinstance(st.targets[0], ast.Name):
            out.append(st.targets[0].id)
        elif isinstance(st, ast.AnnAssign) and isinstance(st.target, ast.Name) and st.value is not None:
            out.append(st.target.id)
    return out


def _members(e: ast.expr) -> Optional[Set[str]]:
    """Set of OperatorState members named by a list/tuple/set literal (possibly wrapped in list()/set()/frozenset()/tuple())."""
    if isinstance(e, ast.Call) and isinstance(e.func, ast.Name) and e.func.id in ("list", "set", "frozenset", "tuple"):
        if not e.args:
            return set()
        return _members(e.args[0])
    if isinstance(e, (ast.List, ast.Tuple, ast.Set)):
        out = set()
        for x in e.elts:
            m = state_of(x)
            if m is None:
                return None
            out.add(m)
        return out
    return None


def read_transition_table(P) -> (Dict[str, Set[str]], ast.AST):
    m = P.mod(RS)
    asg = m.module_assigns()
    if "VALID_TRANSITIONS" not in asg:
        raise AnalysisError("anchor VALID_TRANSITIONS (module-level table) not found in runtime_status.py")
    d = asg["VALID_TRANSITIONS"]
    if not isinstance(d, ast.Dict):
        raise AnalysisError("anchor VALID_TRANSITIONS as a literal table of OperatorState members not found (the table is computed: the documented machine cannot be read off the source)")
    tab: Dict[str, Set[str]] = {}
    for k, v in zip(d.keys, d.values):
        ks = state_of(k) if k is not None else None
        vs = _members(v)
        if ks is None or vs is None:
            raise AnalysisError(f"anchor VALID_TRANSITIONS entry {norm.U(k) if k else None} as a literal of OperatorState members not found")
        tab.setdefault(ks, set()).update(vs)
    return tab, d


def check_table(ctx):
    P = ctx.P
    members = read_enum_members(P, RS, "OperatorState")
    fn_holder = None
    mod = P.mod(RS)
    ctx.files[mod.rel] = mod.sha
    ctx.ob(1, "K5", "OperatorState has exactly the six documented states", set(members) == set(STATES) and len(members) == 6,
           file=RS, construct="class OperatorState", detail=f"members read from the class body: {members}; spec: {STATES}")
    tab, dnode = read_transition_table(P)
    for s in STATES:
        got = tab.get(s)
        ok = got is not None and got == SPEC[s]
        extra = sorted((got or set()) - SPEC[s])
        missing = sorted(SPEC[s] - (got or set()))
        ctx.ob(1, "K5", f"transition table row {s} equals the documented machine", ok, file=RS,
               construct=f"VALID_TRANSITIONS[{s}]",
               detail=f"code: {sorted(got) if got is not None else 'row absent'}; spec: {sorted(SPEC[s])}"
                      + (f"; extra edges {extra}" if extra else "") + (f"; missing edges {missing}" if missing else ""))
    unknown = sorted(set(tab) - set(STATES))
    ctx.ob(1, "K5", "no transition rows for undocumented states", not unknown, file=RS, construct="VALID_TRANSITIONS keys",
           detail=f"rows: {sorted(tab)}")


def first_result_text(f, call: ast.Call) -> Optional[str]:
    """Text of the expression that holds the first element of the tuple returned by `call`."""
    p = parent(call)
    if isinstance(p, ast.Assign) and len(p.targets) == 1:
        t = p.targets[0]
        if isinstance(t, (ast.Tuple, ast.List)) and t.elts and isinstance(t.elts[0], ast.Name):
            return t.elts[0].id
        if isinstance(t, ast.Name):
            return f"{t.id}[0]"
    if isinstance(p, ast.Subscript) and isinstance(p.slice, ast.Constant) and p.slice.value == 0:
        return norm.U(p)
    return None


def check_transition_fn(ctx, numbase=2):
    P = ctx.P
    from ..util import inline_helpers, private_closure
    f = inline_helpers(P, P.fn(RS, "PipelineRuntimeStatus.transition"))
    ctx.touch(f)
    params = f.params()
    ctx.need(len(params) >= 3, "PipelineRuntimeStatus.transition must take (self, operator, new_state)")
    op_p, ns_p = params[1], params[2]
    g = cfg_of(f, subst_env=False)
    calls = calls_named(f, "check_transition")
    ctx.need(len(calls) >= 1 or True, "")
    guard_text = None
    ccall = None
    for c in calls:
        args = [norm.U(a) for a in c.args] + [f"{k.arg}={norm.U(k.value)}" for k in c.keywords]
        if len(c.args) == 2 and norm.is_name(c.args[0], op_p) and norm.is_name(c.args[1], ns_p) and isinstance(c.func, ast.Attribute) \
                and norm.is_name(c.func.value, "self"):
            guard_text = first_result_text(f, c)
            ccall = c
            break
    ctx.ob(numbase, "K3", "transition() validates its own (operator, new_state) through self.check_transition",
           ccall is not None and guard_text is not None, f, ccall or f.node,
           construct="self.check_transition(operator, new_state)",
           detail=f"call found: {norm.U(ccall) if ccall else None}; first result held in: {guard_text}")
    stores = []
    for n in own_nodes(f.node):
        if isinstance(n, (ast.Assign, ast.AugAssign, ast.Delete)):
            tg = n.targets if isinstance(n, (ast.Assign, ast.Delete)) else [n.target]
            for t in tg:
                b = t.value if isinstance(t, ast.Subscript) else t
                if self_attr(b, "operator_states") or self_attr(b, "state_counts"):
                    stores.append((n, t))
        elif isinstance(n, ast.Call) and isinstance(n.func, ast.Attribute) and n.func.attr in (
                "update", "pop", "clear", "setdefault", "popitem", "__setitem__") and (
                self_attr(n.func.value, "operator_states") or self_attr(n.func.value, "state_counts")):
            stores.append((n, n.func.value))
    stores.sort(key=lambda x: pos(f, x[0]))
    if not stores:
        ctx.ob(numbase, "K3", "transition() updates the operator's state and the per-state counts", False, f, f.node, construct="state update in transition()",
               detail="no store to operator_states / state_counts found in transition() (or the private helpers only it calls)")
        return
    goal = ("truth", guard_text, True) if guard_text else None
    for n, t in stores:
        st = n
        while not isinstance(st, ast.stmt):
            st = parent(st)
        ok = goal is not None and g.holds_at(st, goal)
        facts = sorted(norm.show(x) for x in g.facts_at(st))
        ctx.ob(numbase, "K3", "every mutation of operator_states/state_counts is reached only with the transition check asserted true "
               "(assert-before-mutate)", ok, f, st,
               detail=f"required fact: {guard_text} is true; facts holding at the store: {facts}")
    # the three updates, exactly once on every accepted path
    dec = [n for n, t in stores if isinstance(n, ast.AugAssign) and isinstance(n.op, ast.Sub) and isinstance(t, ast.Subscript)
           and self_attr(t.value, "state_counts") and isinstance(n.value, ast.Constant) and n.value.value == 1]
    inc = [n for n, t in stores if isinstance(n, ast.AugAssign) and isinstance(n.op, ast.Add) and isinstance(t, ast.Subscript)
           and self_attr(t.value, "state_counts") and isinstance(n.value, ast.Constant) and n.value.value == 1]
    sets = [n for n, t in stores if isinstance(n, ast.Assign) and isinstance(t, ast.Subscript) and self_attr(t.value, "operator_states")]
    env = {}
    from ..util import single_defs
    env = single_defs(f)

    def key_of(n):
        t = n.target if isinstance(n, ast.AugAssign) else n.targets[0]
        return norm.U(norm.subst(t.slice, env))

    want_old = f"self.operator_states[{op_p}]"
    ok_dec = len(dec) == 1 and key_of(dec[0]) == want_old
    ok_inc = len(inc) == 1 and key_of(inc[0]) == ns_p
    ok_set = len(sets) == 1 and key_of(sets[0]) == op_p and norm.U(norm.subst(sets[0].value, env)) == ns_p
    others = [n for n, t in stores if n not in dec and n not in inc and n not in sets]
    ctx.ob(numbase, "K3", "state_counts[old state] is decremented by one, exactly once", ok_dec, f, dec[0] if dec else f.node,
           construct="state_counts[old] -= 1", detail=f"decrements found: {[stmt_text(n) for n in dec]}; key must resolve to {want_old}")
    ctx.ob(numbase, "K3", "state_counts[new state] is incremented by one, exactly once", ok_inc, f, inc[0] if inc else f.node,
           construct="state_counts[new] += 1", detail=f"increments found: {[stmt_text(n) for n in inc]}; key must be the parameter {ns_p}")
    ctx.ob(numbase, "K3", "operator_states[operator] is set to the requested state, exactly once", ok_set, f, sets[0] if sets else f.node,
           construct="operator_states[operator] = new", detail=f"stores found: {[stmt_text(n) for n in sets]}")
    ctx.ob(numbase, "K3", "no other mutation of the status tables in transition()", not others, f, others[0] if others else f.node,
           construct="other stores", detail=f"{[stmt_text(n) for n in others]}")
    # each of the three on every normal path, and old state read before the overwrite
    for lab, lst in (("decrement", dec), ("increment", inc), ("state store", sets)):
        if len(lst) == 1:
            nid = g.node_of(lst[0]).id
            p = g.path_avoiding(g.entry.id, {g.exit.id}, {nid})
            ctx.ob(numbase, "K3", f"the {lab} is executed on every accepted (non-raising) path", p is None, f, lst[0],
                   detail="no path entry->return avoids it" if p is None else f"path avoiding it: {g.describe_path(p)}")
    if len(dec) == 1 and len(sets) == 1:
        # where is the old state read?  either the local's definition or the decrement itself
        t = dec[0].target
        readers = []
        if isinstance(t.slice, ast.Name) and t.slice.id in env:
            for n in own_nodes(f.node):
                if isinstance(n, ast.Assign) and len(n.targets) == 1 and norm.is_name(n.targets[0], t.slice.id):
                    readers.append(n)
        else:
            readers.append(dec[0])
        sid = g.node_of(sets[0]).id
        ok = bool(readers)
        why = []
        for r in readers:
            rid = g.node_of(r).id
            back = g.path_avoiding(sid, {rid}, set())
            if back is not None or rid == sid:
                ok = False
                why.append(f"old-state read at L{r.lineno} can execute after the overwrite at L{sets[0].lineno}")
        ctx.ob(numbase, "K3", "the old state is read before operator_states[operator] is overwritten", ok, f, sets[0],
               construct="old state read before overwrite", detail="; ".join(why) or f"read at L{[r.lineno for r in readers]} precedes the store on every path")


def check_writers(ctx, num=3):
    P = ctx.P
    from ..util import private_closure
    allowed = {f"{RS}::PipelineRuntimeStatus.__init__"} | {f"{RS}::{q}" for q in private_closure(P, P.fn(RS, "PipelineRuntimeStatus.transition", raw=True))}
    for attr in ("operator_states", "state_counts"):
        ws = attr_writes(P, attr)
        dyn = [w for w in ws if w.how == "dynamic"]
        ctx.count_min(f"writers of {attr}", len([w for w in ws if w.how != "dynamic"]), 2)
        for w in ws:
            who = f"{w.fn.mod.rel}::{w.fn.qual}"
            ctx.ob(num, "K1", f"{attr} is written only by PipelineRuntimeStatus.__init__ and .transition", who in allowed and w.how != "dynamic",
                   w.fn, w.node, detail=f"{w.how} in {who}; allowed writers: {sorted(allowed)}")


def check_counts_init(ctx, num=3):
    """The per-state counts start consistent with the per-operator states: every count 0, then +1 for the state stored for each operator
    (the invariant count[s] == #{operators in state s} that transition() preserves is established here)."""
    P = ctx.P
    ini = P.fn(RS, "PipelineRuntimeStatus.__init__")
    ctx.touch(ini)
    g = cfg_of(ini, subst_env=False)
    cdef = [n for n in own_nodes(ini.node) if isinstance(n, (ast.Assign, ast.AnnAssign)) and n.value is not None
            and any(self_attr(t, "state_counts") for t in (n.targets if isinstance(n, ast.Assign) else [n.target]))]
    ok0 = False
    d = f"{[stmt_text(n) for n in cdef]}"
    if len(cdef) == 1:
        v = cdef[0].value
        if isinstance(v, ast.DictComp) and len(v.generators) == 1 and not v.generators[0].ifs and norm.U(v.generators[0].iter) == "OperatorState" \
                and isinstance(v.generators[0].target, ast.Name) and norm.is_name(v.key, v.generators[0].target.id) \
                and isinstance(v.value, ast.Constant) and v.value.value == 0 and not isinstance(v.value.value, bool):
            ok0 = True
        elif isinstance(v, ast.Dict) and v.keys and all(k is not None and state_of(k) for k in v.keys) and all(isinstance(x, ast.Constant) and x.value == 0 for x in v.values):
            ok0 = {state_of(k) for k in v.keys} == set(read_enum_members(P, RS, "OperatorState"))
        elif isinstance(v, ast.Call) and norm.call_name(v) in ("defaultdict", "Counter") and (not v.args or norm.U(v.args[0]) == "int"):
            ok0 = True
        elif isinstance(v, ast.Call) and norm.U(v.func) == "dict.fromkeys" and len(v.args) == 2 and norm.U(v.args[0]) == "OperatorState" \
                and isinstance(v.args[1], ast.Constant) and v.args[1].value == 0 and not isinstance(v.args[1].value, bool):
            ok0 = True
    ctx.ob(num, "K5", "every per-state count starts at 0", ok0, ini, cdef[0] if cdef else ini.node, construct="state_counts = {state: 0 for state in OperatorState}", detail=d)
    stores = [n for n in own_nodes(ini.node) if isinstance(n, ast.Assign) and any(isinstance(t, ast.Subscript) and self_attr(t.value, "operator_states") for t in n.targets)]
    incs = [n for n in own_nodes(ini.node) if isinstance(n, ast.AugAssign) and isinstance(n.target, ast.Subscript) and self_attr(n.target.value, "state_counts")]
    ok = len(stores) == 1 and len(incs) == 1
    d = f"stores: {[stmt_text(n) for n in stores]}; count updates: {[stmt_text(n) for n in incs]}"
    if ok:
        st, inc = stores[0], incs[0]
        lp = enclosing_for(st, ini.node)
        from ..util import single_defs as _sd
        env_ = _sd(ini)
        s_inc, s_st = state_of(norm.subst(inc.target.slice, env_)), state_of(norm.subst(st.value, env_))
        ok = isinstance(inc.op, ast.Add) and isinstance(inc.value, ast.Constant) and inc.value.value == 1 and not isinstance(inc.value.value, bool) \
            and s_inc is not None and s_inc == s_st and lp is not None and enclosing_for(inc, ini.node) is lp \
            and g.control_equivalent(st, inc, lp)
        d += f"; same state, +1, once per operator together with the store: {ok}"
    ctx.ob(num, "K3", "the count of the initial state grows by one for every operator registered (counts and per-operator states start consistent)", ok, ini,
           incs[0] if incs else ini.node, construct="state_counts[PENDING] += 1 per operator", detail=d)


def check_status_identity(ctx, num=3):
    """A pipeline has one runtime status for its whole life: it is created on first use and never replaced or dropped (a second
    status object would start every operator at PENDING again, whatever it has gone through)."""
    P = ctx.P
    rs = P.fn(PL, "Pipeline.runtime_status")
    ctx.touch(rs)
    g = cfg_of(rs, subst_env=False)
    ws = attr_writes(P, "_runtime_status", include_mutation=False)
    ctx.count_min("writers of Pipeline._runtime_status", len(ws), 2)
    for w in ws:
        who = w.fn.qual
        if who == "Pipeline.__init__":
            ok = isinstance(w.node, (ast.Assign, ast.AnnAssign)) and isinstance(w.node.value, ast.Constant) and w.node.value.value is None
            ctx.ob(num, "K1", "a new pipeline has no runtime status yet", ok, w.fn, w.node, detail=stmt_text(w.node))
        elif who == "Pipeline.runtime_status":
            fs = g.facts_at(w.node)
            ok = isinstance(w.node, ast.Assign) and norm.U(w.node.value) == "PipelineRuntimeStatus(self)" and norm.entails(fs, ("cmp", "is", "self._runtime_status", "None"))
            ctx.ob(num, "K2", "the runtime status is created only while there is none (created once, on first use)", ok, w.fn, w.node,
                   detail=f"{stmt_text(w.node)}; facts: {sorted(norm.show(x) for x in fs)}")
        else:
            ctx.ob(num, "K1", "the runtime status of a pipeline is never replaced or dropped after its creation", False, w.fn, w.node, detail=f"written in {w.fn.mod.rel}::{who}")
    rets = [r for r in own_nodes(rs.node) if isinstance(r, ast.Return)]
    ok = bool(rets) and all(r.value is not None and norm.U(r.value) == "self._runtime_status" for r in rets)
    ctx.ob(num, "K6", "runtime_status() hands out that one object", ok, rs, rets[0] if rets else rs.node, detail=f"{[stmt_text(r) for r in rets]}")
    # operators reach their state through their pipeline's status
    for meth, want in (("transition", "self.pipeline.runtime_status().transition(self, {p})"), ("state", "self.pipeline.runtime_status().operator_states[self]")):
        f = P.fn(PL, f"Operator.{meth}")
        ctx.touch(f)
        # the one statement of the method that does anything (statements without a call or an attribute store do not count)
        body = [s_ for s_ in f.node.body if any(isinstance(x, (ast.Call, ast.Subscript)) or (isinstance(x, ast.Attribute) and isinstance(x.ctx, ast.Store)) for x in ast.walk(s_))]
        e = body[-1].value if body and isinstance(body[-1], (ast.Expr, ast.Return)) else None
        exp = want.format(p=f.params()[1]) if "{p}" in want else want
        ok = len(body) == 1 and e is not None and norm.U(e) == exp
        ctx.ob(num, "K6", f"Operator.{meth}() goes to the runtime status of the operator's own pipeline", ok, f, body[-1] if body else f.node, detail=f"{norm.U(e) if e is not None else None}")


def check_assignment_ctor(ctx, num=4):
    P = ctx.P
    f = P.fn(AS, "Assignment.__init__")
    ctx.touch(f)
    params = f.params()
    ctx.need("ops" in params, "Assignment.__init__ has no 'ops' parameter")
    g = cfg_of(f, subst_env=False)
    loops = [n for n in own_nodes(f.node) if isinstance(n, ast.For) and norm.is_name(n.iter, "ops") and isinstance(n.target, ast.Name)]
    good = None
    detail = "no `for <op> in ops` loop found"
    for lp in loops:
        tcs = [(c, r, s) for (c, r, s) in transition_calls(f) if norm.is_name(r, lp.target.id) and s == "ASSIGNED"
               and any(a is lp for a in _anc(c))]
        if not tcs:
            detail = f"loop at L{lp.lineno} does not transition its element to ASSIGNED"
            continue
        c = tcs[0][0]
        hid = g.node_of(lp).id
        cid = g.node_of(c).id
        # loop on every normal path
        p1 = g.path_avoiding(g.entry.id, {g.exit.id}, {hid})
        # call on every iteration: from the header's iter edge, no way back to the header avoiding the call
        p2 = g.path_avoiding(hid, {hid, g.exit.id}, {cid}, edge_ok=lambda a, b, lab, hid=hid: not (a == hid and lab == "done"))
        if p1 is None and p2 is None:
            good = lp
            detail = f"loop at L{lp.lineno} is on every path to return and transitions every element"
            break
        detail = (f"loop at L{lp.lineno}: " + ("can be bypassed: " + g.describe_path(p1) if p1 else "")
                  + (" element can be skipped: " + g.describe_path(p2) if p2 else ""))
    ctx.ob(num, "K3", "Assignment.__init__ transitions every element of its ops parameter to ASSIGNED on every path",
           good is not None, f, good or f.node, construct="for op in ops: op.transition(ASSIGNED)", detail=detail)
    # rebinds of `ops` before the loop would change what is transitioned
    rebinds = [n for n in own_nodes(f.node) if isinstance(n, (ast.Assign, ast.AugAssign)) and any(
        norm.is_name(t, "ops") for t in (n.targets if isinstance(n, ast.Assign) else [n.target]))]
    st = [n for n in own_nodes(f.node) if isinstance(n, ast.Assign) and any(self_attr(t, "ops") for t in n.targets)]
    ok = len(st) == 1 and norm.U(st[0].value) in ("ops", "list(ops)") and not rebinds
    ctx.ob(num, "K6", "self.ops is the ops parameter itself (the operators that were transitioned are the ones the container runs)",
           ok, f, st[0] if st else f.node, construct="self.ops = ops",
           detail=f"stores: {[stmt_text(n) for n in st]}; rebinds of ops: {[stmt_text(n) for n in rebinds]}")


def _anc(n):
    from ..model import ancestors
    return list(ancestors(n))


def check_container_factory(ctx, num=5):
    P = ctx.P
    sites = [(f, c) for (f, c) in package_calls(P, "Container") if isinstance(c.func, ast.Name)]
    ctx.count_min("Container( construction sites", len(sites), 1)
    from . import pool as _pool
    pa = _pool.pool_analysis(P)
    home = pa.f
    for f, c in sites:
        ok = f.mod.rel == RP and f.qual in pa.closure
        ctx.ob(num, "K1", "Container objects are constructed only in ResourcePool.run_one_tick", ok, f, c,
               detail=f"constructed in {f.mod.rel}::{f.qual}")
    insite = [c for c in calls_named(home, "Container") if isinstance(c.func, ast.Name)]
    ctx.ob(num, "K1", "exactly one Container( site in ResourcePool.run_one_tick", len(insite) == 1, home, insite[0] if insite else home.node,
           construct="Container(...) sites", detail=f"{len(insite)} site(s)")
    if len(insite) == 1:
        c = insite[0]
        params = home.params()
        ctx.need(len(params) >= 3, "ResourcePool.run_one_tick must take (self, suspensions, assignments)")
        asg_p = params[2]
        lp = enclosing_for(c, home.node)
        a_arg = norm.kwarg(c, "assignment", 0)
        ok = (lp is not None and norm.is_name(lp.iter, asg_p) and isinstance(lp.target, ast.Name)
              and a_arg is not None and norm.is_name(a_arg, lp.target.id))
        detail = f"loop: {stmt_text(lp) if lp else None}; assignment argument: {norm.U(a_arg) if a_arg else None}"
        if ok:
            g = cfg_of(home, subst_env=False)
            hid = g.node_of(lp).id
            cid = g.node_of(c).id
            p = g.path_avoiding(hid, {hid, g.exit.id}, {cid}, edge_ok=lambda a, b, lab, hid=hid: not (a == hid and lab == "done"))
            if p is not None:
                ok = False
                detail += f"; an element can be skipped without creating a container: {g.describe_path(p)}"
            # nested loops would create several containers per assignment
            inner = enclosing_for(c, lp)
            if inner is not None:
                ok = False
                detail += "; the construction is inside a nested loop (several containers per assignment)"
        ctx.ob(num, "K3", "one container per element of the assignments parameter (no element skipped, none duplicated)", ok, home, c,
               construct="for a in assignments: Container(assignment=a)", detail=detail)
        if ok:
            # the creation loop is on every path through the tick, or is bypassed only when there is nothing to create
            byp = g.path_avoiding(g.entry.id, {g.exit.id}, {hid})
            okb = byp is None
            if not okb:
                IN = g.facts(blocked={hid})
                ex = IN.get(g.exit.id)
                okb = ex is None or norm.entails(ex, ("truth", asg_p, False))
            ctx.ob(num, "K3", "the creation loop is reached in every tick in which the pool is handed an assignment (it is skipped only for an empty list)", okb, home, lp,
                   construct="creation loop on every path", detail="on every path" if byp is None else f"bypass {g.describe_path(byp)}" + ("; only with an empty list" if okb else ""))


def check_suffix_slices(ctx, num=6):
    P = ctx.P
    for meth, state in (("kill", "FAILED"), ("suspend_container", "SUSPENDING"), ("suspend_container_tick", "PENDING")):
        f = P.fn(CT, f"Container.{meth}")
        ctx.touch(f)
        tcs = transition_calls_deep(P, f)
        if not any(s == state for (_, _, _, s, _) in tcs):
            ctx.ob(8, "K5", f"Container.{meth} moves the unfinished operators to {state}", False, f, f.node, construct=f"transition({state})",
                   detail=f"no transition to {state} found in Container.{meth} or the same-class helpers it calls; transitions found: "
                          f"{[(fn.qual, s) for fn, _, _, s, _ in tcs]}")
        for fn_, c, recv, s, chain in tcs:
            ctx.touch(fn_)
            lp = enclosing_for(c, fn_.node)
            ok = False
            detail = "transition call is not inside a for loop over the operator suffix"
            if lp is not None and isinstance(lp.target, ast.Name) and norm.is_name(recv, lp.target.id):
                from ..util import inline_simple_calls, single_defs
                it = inline_simple_calls(P, norm.subst(lp.iter, single_defs(fn_)))   # the slice may live in a private helper or a local
                if (isinstance(it, ast.Subscript) and isinstance(it.slice, ast.Slice) and it.slice.upper is None and it.slice.step is None
                        and it.slice.lower is not None and self_attr(it.slice.lower, "_current_op_idx")
                        and (self_attr(it.value, "operators") or norm.U(it.value) == "self.assignment.ops")):
                    ok = True
                    detail = f"iterates {norm.U(it)}"
                else:
                    detail = f"iterates {norm.U(it)}; required: self.operators[self._current_op_idx:]"
            via = f" (via {' -> '.join(norm.U(x) for x in chain)})" if chain else ""
            ctx.ob(num, "K6", f"Container.{meth} touches exactly the unfinished suffix operators[_current_op_idx:]", ok, fn_, c, detail=detail + via)
            ctx.ob(8, "K5", f"Container.{meth} moves operators to {state} and to no other state", s == state, fn_, c,
                   detail=f"target state in code: {s}; machine: {state}" + via)


def check_op_idx(ctx, num=7):
    P = ctx.P
    ws = attr_writes(P, "_current_op_idx")
    ctx.count_min("writers of _current_op_idx", len(ws), 1)
    gen = P.fn(CT, "Container._tick_generator")
    if not any(same_fn(w.fn, gen) for w in ws):
        ctx.ob(num, "K3", "_current_op_idx advances when an operator completes", False, gen, gen.node, construct="self._current_op_idx += 1",
               detail="the tick generator never advances the index: kill/suspend would touch operators that already completed")
    for w in ws:
        who = f"{w.fn.mod.rel}::{w.fn.qual}"
        if who == f"{CT}::Container.__init__":
            ok = isinstance(w.node, (ast.Assign, ast.AnnAssign)) and isinstance(w.node.value, ast.Constant) and w.node.value.value == 0
            ctx.ob(num, "K1", "_current_op_idx starts at 0", ok, w.fn, w.node, detail=f"{stmt_text(w.node)}")
        elif same_fn(w.fn, gen):
            n = w.node
            ok = isinstance(n, ast.AugAssign) and isinstance(n.op, ast.Add) and isinstance(n.value, ast.Constant) and n.value.value == 1
            detail = stmt_text(n)
            if ok:
                # same block, immediately preceded (ignoring nothing) by the COMPLETED transition of the current operator
                blk = _block_of(n)
                i = [k for k, s in enumerate(blk) if s is n][0]
                prev_ok = False
                for s in blk[:i]:
                    for c, recv, st in transition_calls(gen):
                        if st == "COMPLETED" and _stmt_of(c) is s:
                            prev_ok = True
                ok = prev_ok
                detail += "; preceded in the same block by the COMPLETED transition" if prev_ok else "; no COMPLETED transition earlier in the same block"
            ctx.ob(num, "K3", "_current_op_idx advances by one only together with the COMPLETED transition of the current operator", ok, w.fn, n, detail=detail)
        else:
            ctx.ob(num, "K1", "_current_op_idx is written only by Container.__init__ and the tick generator", False, w.fn, w.node,
                   detail=f"written in {who}")
    # and the other direction: every COMPLETED transition in the generator is followed by the increment in the same block
    for c, recv, st in transition_calls(gen):
        if st == "COMPLETED":
            s = _stmt_of(c)
            blk = _block_of(s)
            i = [k for k, x in enumerate(blk) if x is s][0]
            follows = any(isinstance(x, ast.AugAssign) and self_attr(x.target, "_current_op_idx") for x in blk[i + 1:])
            ctx.ob(num, "K3", "every COMPLETED transition advances _current_op_idx in the same block", follows, gen, c,
                   detail="increment follows in the same block" if follows else "no increment after the transition in its block")
    # state targets in the generator (K5 #8)
    for c, recv, st in transition_calls(gen):
        ctx.ob(8, "K5", "the tick generator only starts (RUNNING) and completes (COMPLETED) operators", st in ("RUNNING", "COMPLETED"), gen, c,
               detail=f"target state: {st}")


def _stmt_of(n):
    while not isinstance(n, ast.stmt):
        n = parent(n)
    return n


def _block_of(s: ast.stmt) -> List[ast.stmt]:
    p = parent(s)
    for fld in ("body", "orelse", "finalbody"):
        b = getattr(p, fld, None)
        if isinstance(b, list) and any(x is s for x in b):
            return b
    if isinstance(p, ast.Try):
        for h in p.handlers:
            if any(x is s for x in h.body):
                return h.body
    return [s]


SITES = {   # target state -> functions allowed to request it (confirmed by reading; the forwarding wrappers carry a computed state)
    "ASSIGNED": {(AS, "Assignment.__init__")},
    "RUNNING": {(CT, "Container._tick_generator")},
    "COMPLETED": {(CT, "Container._tick_generator")},
    "FAILED": {(CT, "Container.kill")},
    "SUSPENDING": {(CT, "Container.suspend_container")},
    "PENDING": {(CT, "Container.suspend_container_tick")},
}


def check_transition_sites(ctx, num=8):
    """K1: every operator state change is requested at one of the documented sites (same-class private helpers of a site count as the site)."""
    P = ctx.P
    from ..util import private_closure
    allowed = {}
    for st, sites in SITES.items():
        allowed[st] = set()
        for rel, q in sites:
            try:
                allowed[st] |= {(rel, x) for x in private_closure(P, P.fn(rel, q, raw=True))}
            except AnalysisError:
                allowed[st].add((rel, q))
    n = 0
    for fn_ in P.all_funcs(include_template=True):
        for c, recv, st in transition_calls(fn_):
            if st is None:
                continue
            n += 1
            ok = (fn_.mod.rel, fn_.qual) in allowed.get(st, set())
            ctx.ob(num, "K1", f"operators are moved to {st} only at the documented site ({', '.join(q for _, q in SITES.get(st, []))})", ok, fn_, c,
                   detail=f"transition({st}) requested in {fn_.mod.rel}::{fn_.qual}")
    ctx.count_min("transition call sites with a literal target state", n, 1)


def run(ctx):
    check_table(ctx)
    check_transition_sites(ctx, 8)
    from . import c01
    c01.check_check_transition(ctx)      # the table is actually consulted for every request (filed under #1 / #2 of this property)
    check_transition_fn(ctx, 2)
    ob_errors_propagate(ctx, 2, "a transition outside the machine is refused with an error")
    check_writers(ctx, 3)
    check_counts_init(ctx, 3)
    check_status_identity(ctx, 3)
    check_assignment_ctor(ctx, 4)
    check_container_factory(ctx, 5)
    # "at most one live container per operator": an accepted assignment reaches exactly one pool (the executor's routing, C09#1)
    from . import c09
    c09.check_routing(Renumber(ctx, {1: 5}), 1)
    check_suffix_slices(ctx, 6)
    check_op_idx(ctx, 7)
    # "an operator belongs to at most one live container": operators are handed back (PENDING / FAILED / COMPLETED) exactly when their
    # container leaves the pool's lists; a container that hands its operators back but stays listed would share them with the next one
    from . import pool as _pool
    _pool.ob_moves_classified(ctx, 8)
    _pool.ob_deltas(ctx, 8, amounts=False, conditions=True)
