"""C13 — trace replay delivers each pipeline once, at the first tick >= its arrival."""
from __future__ import annotations

import ast
from typing import Dict, List, Optional, Tuple

from .. import norm, ratform
from ..model import own_nodes, stmt_text, parent
from ..util import attr_writes, cfg_of, calls_named, single_defs, write_once_fields, inline_simple_calls
from .common import *
from . import pool as poolmod

EXPLANATION = (
    "Static decision of the structural clauses of C13.  (1) replay cursor discipline in WorkloadTrace: next_batch is written only "
    "by __init__ / advance_to_next_batch; in run_one_tick every delivered batch is appended element by element, in order, and is "
    "followed by exactly one advance; current_tick grows by exactly one per call on every path.  (2) the first batch is preloaded by a "
    "constructor that has already set every field the loading step reads; (2 cont.) delivery condition: a batch "
    "is delivered only with `next_batch is not None` and `<arrival side> <= <tick side>` in this orientation, non-strict (never "
    "before its arrival, not later than the first tick at or after it).  (3) K16 accumulate-and-flush: batch_by_arrival and "
    "batch_by_pipeline put every element into exactly one group, group consecutive elements by exact equality (==) of the key, "
    "yield a group before starting the next one and flush the last group after the loop; a group starts only where the key changes (path "
    "property) and the group list is never emptied, cut or re-bound during the pass.  (4) K14b grid agreement: the writer "
    "(gentrace) emits G_w(tick) and the reader must compare the stored arrival against the image of the same forward map, "
    "`arrival <= G(current_tick)` with G float-structurally identical to G_w — comparing through an inverse of a rounded float map "
    "does not make `written at tick k => delivered at tick k` hold.  (5) both sides use the same ticks_per_second and the same "
    "number of ticks int(duration * ticks_per_second).")
UNDECIDED = "no trace is replayed; exactness is decided by the shape of the two maps (grid rule), not measured on sample values"
ASSUMPTIONS = COMMON_ASSUMPTIONS + ["rows of a trace are in arrival order (precondition stated by the property)"]


def check_cursor(ctx, num=1):
    P = ctx.P
    from ..util import desugar_extend
    f = desugar_extend(P.fn(WL, "WorkloadTrace.run_one_tick"))   # xs.extend(e for v in it) is the element-wise loop it abbreviates
    ctx.touch(f)
    g = cfg_of(f, subst_env=False)
    allowed = {"WorkloadTrace.__init__", "WorkloadTrace.advance_to_next_batch"}
    ws = attr_writes(P, "next_batch")
    ctx.count_min("writers of next_batch", len(ws), 2)
    for w in ws:
        ctx.ob(num, "K1", "the replay cursor (next_batch) moves only through advance_to_next_batch", w.fn.qual in allowed, w.fn, w.node, detail=w.fn.qual)
    adv = P.fn(WL, "WorkloadTrace.advance_to_next_batch")
    ctx.touch(adv)
    ga = cfg_of(adv, subst_env=False)
    st = [n for n in own_nodes(adv.node) if isinstance(n, ast.Assign) and any(self_attr(t, "next_batch") for t in n.targets)]
    nx = [s for s in st if isinstance(s.value, ast.Call) and norm.is_name(s.value.func, "next") and norm.U(s.value.args[0]) == "self._arrival_iterator"]
    none = [s for s in st if isinstance(s.value, ast.Constant) and s.value.value is None]
    # next(it, None) is the same thing in one expression
    nx_default = [s for s in st if isinstance(s.value, ast.Call) and norm.is_name(s.value.func, "next") and len(s.value.args) == 2 and norm.U(s.value.args[0]) == "self._arrival_iterator"
                  and isinstance(s.value.args[1], ast.Constant) and s.value.args[1].value is None]
    ok = (len(nx) == 1 and len(none) >= 1 and len(st) == len(nx) + len(none) and len(nx[0].value.args) == 1) or (len(nx_default) == 1 and len(st) == 1)
    ctx.ob(num, "K3", "advancing takes the next batch of the reader's iterator, or None when it is exhausted", ok, adv, nx[0] if nx else adv.node, construct="self.next_batch = next(self._arrival_iterator)",
           detail=f"{[stmt_text(s) for s in st]}")
    ini = P.fn(WL, "WorkloadTrace.__init__")
    ctx.touch(ini)
    its = [n for n in own_nodes(ini.node) if isinstance(n, ast.Assign) and any(self_attr(t, "_arrival_iterator") for t in n.targets)]
    ok = len(its) == 1 and norm.U(its[0].value) in ("reader.batch_by_arrival()", "self.reader.batch_by_arrival()")
    ctx.ob(num, "K6", "the iterator replayed is the reader's batch_by_arrival()", ok, ini, its[0] if its else ini.node, detail=f"{[stmt_text(s) for s in its]}")
    ws = attr_writes(P, "_arrival_iterator")
    ctx.ob(num, "K1", "the iterator is created once", len(ws) == 1, ini, ini.node, construct="_arrival_iterator writers", detail=f"{len(ws)}")
    ct0 = [n for n in own_nodes(ini.node) if isinstance(n, ast.Assign) and any(self_attr(t, "current_tick") for t in n.targets)]
    ctx.ob(num, "K5", "replay starts at tick 0", len(ct0) == 1 and isinstance(ct0[0].value, ast.Constant) and ct0[0].value.value == 0, ini, ct0[0] if ct0 else ini.node,
           detail=f"{[stmt_text(s) for s in ct0]}")
    # run_one_tick
    whiles = [n for n in own_nodes(f.node) if isinstance(n, ast.While)]
    advs = [c for c in calls_named(f, "advance_to_next_batch")]
    rets = [r for r in own_nodes(f.node) if isinstance(r, ast.Return) and r.value is not None]
    out = rets[0].value.id if len(rets) == 1 and isinstance(rets[0].value, ast.Name) else None
    ctx.ob(num, "K6", "run_one_tick returns the list it filled", out is not None, f, rets[0] if rets else f.node, detail=f"{[stmt_text(r) for r in rets]}")
    ok = len(whiles) == 1 and len(advs) == 1 and any(a is whiles[0] for a in _anc(advs[0]))
    ctx.ob(num, "K3", "batches are consumed in one loop that advances the cursor once per delivered batch", ok, f, whiles[0] if whiles else f.node, construct="while <due>: deliver; advance",
           detail=f"{len(whiles)} while loop(s), {len(advs)} advance call(s)")
    if ok and out:
        w = whiles[0]
        wid = g.node_of(w).id
        inner = [n for n in w.body if isinstance(n, ast.For)]
        okd = False
        d = "no element-wise delivery loop"
        if len(inner) == 1 and norm.U(inner[0].iter) == "self.next_batch" and isinstance(inner[0].target, ast.Name):
            pv = inner[0].target.id
            apps = [c for c in ast.walk(inner[0]) if isinstance(c, ast.Call) and isinstance(c.func, ast.Attribute) and c.func.attr == "append" and norm.is_name(c.func.value, out)]
            okd = len(apps) == 1 and norm.U(apps[0].args[0]) == f"{pv}.pipeline"
            if okd:
                hid = g.node_of(inner[0]).id
                okd = g.path_avoiding(hid, {hid, g.exit.id}, {g.node_of(apps[0]).id}, edge_ok=lambda a, b, lab: not (a == hid and lab == "done")) is None
            # delivery before the advance, both in every iteration of the while
            start = g.node_of(w.body[0]).id
            aid = g.node_of(advs[0]).id
            skip_adv = None if start == aid else g.path_avoiding(start, {wid}, {aid})
            okd = okd and g.dominates(inner[0], advs[0]) and skip_adv is None
            d = f"`{stmt_text(inner[0])}` appends every element's pipeline to `{out}` in order, then advances"
        ctx.ob(num, "K3", "every pipeline of a due batch is delivered, in file order, exactly once (the batch is then left behind)", okd, f, inner[0] if inner else w, detail=d)
        other = [c for c in own_nodes(f.node) if isinstance(c, ast.Call) and isinstance(c.func, ast.Attribute) and norm.is_name(c.func.value, out) and c.func.attr != "append"]
        ctx.ob(num, "K6", "the delivered list is only appended to", not other, f, other[0] if other else f.node, construct="mutations of the delivered list", detail=f"{[norm.U(o) for o in other]}")
    incs = [n for n in own_nodes(f.node) if isinstance(n, ast.AugAssign) and self_attr(n.target, "current_tick")]
    ok = len(incs) == 1 and isinstance(incs[0].op, ast.Add) and isinstance(incs[0].value, ast.Constant) and incs[0].value.value == 1 \
        and g.path_avoiding(g.entry.id, {g.exit.id}, {g.node_of(incs[0]).id}) is None and not any(a for a in _anc(incs[0]) if isinstance(a, (ast.While, ast.For)))
    otherw = [w for w in attr_writes(P, "current_tick") if w.fn.qual.startswith("WorkloadTrace") and not any(getattr(w.node, "lineno", -1) == i_.lineno and stmt_text(w.node) == stmt_text(i_) for i_ in incs) and w.fn.qual != "WorkloadTrace.__init__"]
    ctx.ob(num, "K3", "the replay clock advances by exactly one tick per call, on every path, after the deliveries of that tick", ok and not otherw and
           (not whiles or g.path_avoiding(g.node_of(incs[0]).id, {g.node_of(whiles[0]).id}, set()) is None) if incs else False, f, incs[0] if incs else f.node,
           construct="self.current_tick += 1", detail=f"{[stmt_text(n) for n in incs]}; other writers: {[repr(w) for w in otherw]}")
    return f, g, whiles[0] if whiles else None


def check_condition(ctx, f, g, w, num=2):
    P = ctx.P
    if w is None:
        return None
    t = inline_simple_calls(P, w.test)
    nn = norm.nnf(t)
    atoms = norm.atoms_true(nn)
    notnone = ("cmp", "isnot", "self.next_batch", "None") in atoms
    ctx.ob(num, "K2", "a batch is delivered only if there is one (next_batch is not None)", notnone, f, w, construct="guard: next_batch is not None", detail=norm.show(nn))
    le = [a for a in atoms if a[0] == "cmp" and a[1] in ("<=", "<")]
    ok = len(le) == 1 and le[0][1] == "<=" and "arrival_seconds" in le[0][2] and "current_tick" in le[0][3]
    ctx.ob(num, "K2", "the delivery test is `<arrival> <= <current tick>` — non-strict and in this orientation (delivered in the first tick whose start is at or after the "
           "arrival, never before it)", ok, f, w, construct="orientation of the delivery test", detail=f"test after inlining: {norm.show(nn)}")
    # first batch preloaded so that tick 0 arrivals are not lost
    ini = P.fn(WL, "WorkloadTrace.__init__")
    pre = calls_named(ini, "advance_to_next_batch")
    gi = cfg_of(ini, subst_env=False)
    ok = len(pre) == 1 and gi.path_avoiding(gi.entry.id, {gi.exit.id}, {gi.node_of(pre[0]).id}) is None
    ctx.ob(num, "K3", "the first batch is loaded before the first tick", ok, ini, pre[0] if pre else ini.node, construct="preload", detail=f"{len(pre)} call(s)")
    if len(pre) == 1:
        # ... by an object that is ready for it: every field the loading step reads (or updates in place) has been set before the preload — also on the
        # path it takes when the trace is empty
        adv = P.fn(WL, "WorkloadTrace.advance_to_next_batch")
        ctx.touch(adv)
        cl = P.cls(WL, "WorkloadTrace")
        class_level = {t.id for st in cl.node.body if isinstance(st, (ast.Assign, ast.AnnAssign)) for t in (st.targets if isinstance(st, ast.Assign) else [st.target]) if isinstance(t, ast.Name)}
        reads = set()
        for n in own_nodes(adv.node):
            if isinstance(n, ast.Attribute) and norm.is_name(n.value, "self") and n.attr not in cl.methods and n.attr not in class_level:
                if isinstance(n.ctx, ast.Load):
                    reads.add(n.attr)
                elif isinstance(parent(n), ast.AugAssign) and parent(n).target is n:
                    reads.add(n.attr)
        pst = pre[0]
        while not isinstance(pst, ast.stmt):
            pst = parent(pst)
        ready = set()
        for st in own_nodes(ini.node):
            if isinstance(st, (ast.Assign, ast.AnnAssign)) and getattr(st, "value", None) is not None:
                for t in (st.targets if isinstance(st, ast.Assign) else [st.target]):
                    if isinstance(t, ast.Attribute) and norm.is_name(t.value, "self") and st is not pst and gi.dominates(st, pst):
                        ready.add(t.attr)
        missing = sorted(reads - ready)
        ctx.ob(num, "K3", "the preload finds the object initialised: every field the loading step reads is set in the constructor before the preload", not missing, ini, pst,
               construct="fields set before the preload", detail=f"read by advance_to_next_batch: {sorted(reads)}; not yet set at the preload: {missing}")
    return le[0] if len(le) == 1 else None


def check_flush(ctx, num=3, only=None):
    """K16 for the two grouping generators."""
    P = ctx.P
    for meth, keyattr, src_call in (("batch_by_arrival", "arrival_seconds", "batch_by_pipeline"), ("batch_by_pipeline", "pipeline_id", None)):
        if only and meth not in only:
            continue
        f = P.fn(CSV, f"CSVWorkloadReader.{meth}")
        ctx.touch(f)
        g = cfg_of(f, subst_env=False)
        loops = [n for n in f.node.body if isinstance(n, ast.For)]
        ok = len(loops) == 1 and isinstance(loops[0].target, ast.Name)
        ctx.ob(num, "K16", f"{meth} groups in a single pass over its source", ok, f, loops[0] if loops else f.node, construct="single pass", detail=f"{[stmt_text(l) for l in loops]}")
        if not ok:
            continue
        lp = loops[0]
        x = lp.target.id
        hid = g.node_of(lp).id
        if src_call:
            oks = norm.U(lp.iter) == f"self.{src_call}()"
            ctx.ob(num, "K6", f"{meth} consumes the pipelines in file order", oks, f, lp, detail=stmt_text(lp))
        le = {}
        cnt = {}
        for n in ast.walk(lp):
            if isinstance(n, ast.Assign) and len(n.targets) == 1 and isinstance(n.targets[0], ast.Name):
                cnt[n.targets[0].id] = cnt.get(n.targets[0].id, 0) + 1
                le[n.targets[0].id] = n.value
        elem = x
        # the element put into groups: x itself, or a single-def local derived from x (row = self._parse_row(row_dict))
        derived = [k for k, v in le.items() if cnt[k] == 1 and x in norm.names_in(v)]
        # group variable: a list that receives [elem] and .append(elem)
        starts = [n for n in ast.walk(lp) if isinstance(n, ast.Assign) and isinstance(n.value, ast.List) and len(n.value.elts) == 1 and isinstance(n.value.elts[0], ast.Name)
                  and (n.value.elts[0].id == x or n.value.elts[0].id in derived)]
        okg = len(starts) >= 1 and len({norm.U(s.targets[0]) for s in starts}) == 1
        ctx.ob(num, "K16", f"{meth} collects the current group in one list", okg, f, starts[0] if starts else lp, construct="group list", detail=f"{[stmt_text(s) for s in starts]}")
        if not okg:
            continue
        B = norm.U(starts[0].targets[0])
        elem = starts[0].value.elts[0].id
        apps = [c for c in ast.walk(lp) if isinstance(c, ast.Call) and isinstance(c.func, ast.Attribute) and c.func.attr == "append" and norm.U(c.func.value) == B and norm.is_name(c.args[0], elem)]
        put = {g.node_of(s).id for s in starts} | {g.node_of(a).id for a in apps}
        miss = g.path_avoiding(hid, {hid, g.exit.id}, put, edge_ok=lambda a, b, lab: not (a == hid and lab == "done"))
        ctx.ob(num, "K16", f"{meth}: every element joins a group (none is dropped)", miss is None, f, lp, construct="every element grouped",
               detail="each iteration either starts a group with the element or appends it" if miss is None else g.describe_path(miss))
        twice = None
        for p_ in put:
            twice = twice or g.path_avoiding(p_, put, {hid})
        ctx.ob(num, "K16", f"{meth}: no element is put into two groups", twice is None, f, lp, construct="element grouped once", detail="ok" if twice is None else g.describe_path(twice))
        def _is_key(term):
            """the term reads the key attribute, directly or as a local bound once in the loop to an expression that does (item_key = item.<key>)"""
            return keyattr in term or (term in le and cnt.get(term) == 1 and keyattr in norm.U(le[term]))
        # equality of keys
        for a in apps:
            fs = g.facts_at(a)
            eq = [z for z in fs if z[0] == "cmp" and z[1] == "==" and (_is_key(z[2]) or _is_key(z[3]))]
            ok = len(eq) >= 1
            ctx.ob(num, "K16", f"{meth}: an element joins the current group only if its {keyattr} is exactly equal (==) to the group's", ok, f, a,
                   detail=f"facts at the append: {sorted(norm.show(z) for z in fs)}")
        # the boundary between two groups is a change of the key and nothing else: where a new group is started the key differs (or there is no group yet)
        def _justifies(z, depth=0):
            """this condition says: the key differs from the current group's, or there is no group yet"""
            if z[0] == "cmp" and z[1] == "!=" and (_is_key(z[2]) or _is_key(z[3])):
                return True
            if z[0] == "cmp" and z[1] == "is" and z[3] == "None":
                return True
            if z[0] == "truth" and z[2] is True and z[1] in le and cnt.get(z[1]) == 1 and depth < 2:
                return _justifies(norm.nnf(le[z[1]]), depth + 1)
            if z[0] == "truth" and z[2] is False and z[1] in le and cnt.get(z[1]) == 1 and depth < 2:
                return _justifies(norm.neg(norm.nnf(le[z[1]])), depth + 1)     # `open_ = cur is not None … if not open_:` says `cur is None`
            if z[0] == "or":
                return all(_justifies(k, depth) for k in z[1])
            if z[0] == "and":
                return any(_justifies(k, depth) for k in z[1])
            return False
        for s_ in starts:
            fs_ = g.facts_at(poolmod.block_of(s_)[0])      # what holds where the branch that starts the group is entered (the key variable is re-set inside it)
            okb = any(_justifies(z) for z in fs_)
            if not okb:
                # the same as a path property: within one iteration no way leads to the start of a group except over a test that says so
                way = g.path_avoiding(hid, {g.node_of(s_).id}, set(), edge_ok=lambda a, b, lab: not (a == hid and lab == "done")
                                      and not (isinstance(lab, tuple) and lab[0] == "cond" and _justifies(lab[1])))
                okb = way is None
            ctx.ob(num, "K16", f"{meth}: a new group is started only where the {keyattr} changes (rows with the same {keyattr} are never split over two groups)", okb, f, s_,
                   construct="group boundary = change of key", detail=f"facts at the start of a group: {sorted(norm.show(z) for z in fs_)[:8]}")
        # inside the pass the group list is only ever started afresh with the element that opens the next group: it is never emptied, cut or
        # re-bound to anything else (a group handed over in pieces is two groups — or an empty one — for whoever consumes them)
        rebinds = [n for n in ast.walk(lp) if isinstance(n, (ast.Assign, ast.AugAssign, ast.AnnAssign, ast.Delete))
                   and any(norm.U(t) == B or (isinstance(t, ast.Subscript) and norm.U(t.value) == B)
                           for t in (n.targets if isinstance(n, (ast.Assign, ast.Delete)) else [n.target])) and not any(n is s_ for s_ in starts)]
        cuts = [c for c in ast.walk(lp) if isinstance(c, ast.Call) and isinstance(c.func, ast.Attribute) and norm.U(c.func.value) == B
                and c.func.attr in ("clear", "pop", "remove", "insert", "extend", "reverse", "sort")]
        ctx.ob(num, "K16", f"{meth}: during the pass the group list only grows by the current element or is started afresh with it (never emptied, cut or re-bound otherwise)",
               not rebinds and not cuts, f, (rebinds + cuts)[0] if rebinds or cuts else lp, construct="group list updates",
               detail=f"{[stmt_text(poolmod.stmt_of(x))[:70] for x in rebinds + cuts]}" if rebinds or cuts else f"{len(starts)} start(s), {len(apps)} append(s)")
        # yield-before-reset: a group start that is not the first must be preceded by a yield of the old group in the same iteration
        ys = [n for n in g.nodes if n.is_yield and n.ast is not None and any(n.ast is z for z in ast.walk(lp))]
        IN_noyield = g.facts(blocked={y.id for y in ys})
        nones = {n.targets[0].id for n in f.node.body if isinstance(n, ast.Assign) and len(n.targets) == 1 and isinstance(n.targets[0], ast.Name)
                 and isinstance(n.value, ast.Constant) and n.value.value is None}
        for s in starts:
            # on every way to a group start that passes no yield, nothing has been collected yet (the key variable is still None)
            fs = IN_noyield.get(g.node_of(s).id)
            okp = fs is None
            if fs is not None:
                # look at s and at the plain assignments just before it in its block (the key variable is typically set right there)
                blk = poolmod.block_of(s)
                i_ = [k for k, b_ in enumerate(blk) if b_ is s][0]
                pts = [s]
                while i_ > 0 and isinstance(blk[i_ - 1], (ast.Assign, ast.AnnAssign)) and not any(isinstance(z, (ast.Yield, ast.YieldFrom)) for z in ast.walk(blk[i_ - 1])):
                    i_ -= 1
                    pts.append(blk[i_])
                for p_ in pts:
                    fp = IN_noyield.get(g.node_of(p_).id)
                    if fp is not None and any(norm.entails(fp, ("cmp", "is", k_, "None")) for k_ in nones):
                        okp = True
                if okp:
                    continue    # the start of the very first group
            pre = None if okp else g.path_avoiding(hid, {g.node_of(s).id}, {y.id for y in ys}, edge_ok=lambda a, b, lab: not (a == hid and lab == "done"))
            ctx.ob(num, "K16", f"{meth}: when the key changes the finished group is yielded before the next group is started", okp, f, s,
                   detail="a yield lies on every path to the restart" if okp else (g.describe_path(pre) if pre else "a restart without a yield is possible after the first group"))
        # flush after the loop
        after = [n for n in g.nodes if n.is_yield and n.ast is not None and not any(n.ast is z for z in ast.walk(lp)) and pos(f, n.ast) > pos(f, lp)]
        okf = False
        d = "no yield after the loop"
        for y in after:
            fs = g.facts_at(y.ast)
            if norm.entails(fs, ("truth", B, True)):
                # reached whenever the group is non-empty
                IN = g.facts(blocked={y.id})
                ex = IN.get(g.exit.id)
                okf = ex is None or norm.entails(ex, ("truth", B, False))
                d = f"flush at L{y.ast.lineno} under non-empty group; skipped only when the group is empty: {okf}"
        ctx.ob(num, "K16", f"{meth}: the last group is flushed after the loop", okf, f, after[0].ast if after else lp, construct="flush of the last group", detail=d)


def check_grid(ctx, le_atom, num=4):
    P = ctx.P
    wr = P.fn(CSV, "WorkloadTraceGenerator.generate_rows")
    ctx.touch(wr)
    fenv_w = {k: v for k, v in write_once_fields(P, CSV, "WorkloadTraceGenerator").items() if k in ("self.tick_length_secs", "self.ticks_per_second", "self.max_ticks")}
    fenv_r = {k: v for k, v in write_once_fields(P, WL, "WorkloadTrace").items() if k in ("self.tick_length_secs", "self.ticks_per_second")}
    loops = [n for n in own_nodes(wr.node) if isinstance(n, ast.For) and isinstance(n.iter, ast.Call) and norm.is_name(n.iter.func, "range")]
    ok = len(loops) >= 1 and isinstance(loops[0].target, ast.Name)
    ctx.ob(num, "K3", "the writer walks the ticks 0 .. max_ticks-1", ok and norm.U(loops[0].iter) == "range(self.max_ticks)", wr, loops[0] if loops else wr.node, detail=stmt_text(loops[0]) if loops else "")
    if not ok:
        return
    lp = loops[0]
    tv = lp.target.id
    g = cfg_of(wr, subst_env=False)
    # the arrival value handed to _pipeline_to_rows
    calls = [c for c in ast.walk(lp) if isinstance(c, ast.Call) and norm.call_name(c) == "_pipeline_to_rows"]
    okc = len(calls) == 1 and len(calls[0].args) == 3
    arr = None
    if okc:
        le = {}
        for n in ast.walk(lp):
            if isinstance(n, ast.Assign) and len(n.targets) == 1 and isinstance(n.targets[0], ast.Name):
                le[n.targets[0].id] = n.value
        arr = norm.subst(norm.subst(calls[0].args[2], le), fenv_w)
        # one workload step per tick, in tick order
        steps = [c for c in ast.walk(lp) if isinstance(c, ast.Call) and norm.call_name(c) == "run_one_tick"]
        hid = g.node_of(lp).id
        oks = len(steps) == 1 and g.path_avoiding(hid, {hid, g.exit.id}, {g.node_of(steps[0]).id}, edge_ok=lambda a, b, lab: not (a == hid and lab == "done")) is None
        ctx.ob(num, "K3", "the writer steps the workload exactly once per tick and stamps the pipelines of that step with that tick's time", oks, wr, steps[0] if steps else lp,
               construct="one workload step per written tick", detail=f"{len(steps)} step(s) per iteration")
    ctx.ob(num, "K6", "every generated pipeline is written with the arrival time of the tick that produced it", okc, wr, calls[0] if calls else lp, construct="_pipeline_to_rows(pipeline, id, arrival)",
           detail=f"arrival expression: {norm.U(arr) if arr is not None else None}")
    if arr is None:
        return
    Gw = norm.U(arr)   # e.g.  tick * (1.0 / ticks_per_second)
    # reader side
    rd = P.fn(WL, "WorkloadTrace.run_one_tick")
    whiles = [n for n in own_nodes(rd.node) if isinstance(n, ast.While)]
    if not whiles:
        return
    t = norm.subst(inline_simple_calls(P, whiles[0].test), fenv_r)
    cmp_ = None
    for x in ast.walk(t):
        if isinstance(x, ast.Compare) and len(x.ops) == 1 and isinstance(x.ops[0], (ast.LtE, ast.GtE, ast.Lt, ast.Gt)):
            cmp_ = x
    if cmp_ is None:
        ctx.ob(num, "K14b", "the reader has an order comparison between arrival and tick", False, rd, whiles[0], detail=norm.U(t))
        return
    l, r = cmp_.left, cmp_.comparators[0]
    if isinstance(cmp_.ops[0], (ast.GtE, ast.Gt)):
        l, r = r, l
    # required:  l is the raw stored arrival,  r == G_w[tick := self.current_tick]
    want = norm.U(norm.subst(arr, {tv: ast.parse("self.current_tick", mode="eval").body}))
    raw = norm.U(l).endswith(".arrival_seconds")
    same = norm.U(r) == want
    Gk = norm.U(norm.subst(arr, {tv: ast.Name("k", ast.Load())}))
    construct = f"writer G_w(k) = {Gk} ; reader test: {norm.U(l)} <= {norm.U(r)}"
    ctx.ob(num, "K14b", "grid agreement: the reader compares the stored arrival itself against the image of the current tick under the writer's own forward map "
           "(`arrival <= G_w(current_tick)`), so a pipeline written at tick k is delivered at tick k for every k and tick rate", raw and same, rd, whiles[0], construct=construct,
           detail=f"left side is the raw arrival: {raw}; right side is G_w(current_tick) = `{want}`: {same}. A float map is not invertible: dividing the rounded arrival by the rounded "
                  f"tick length can land above k (3 * 0.1 / 0.1 > 3), delivering one tick late.")


def params_name(f):
    for n in own_nodes(f.node):
        if isinstance(n, ast.Assign) and isinstance(n.targets[0], ast.Name) and isinstance(n.value, ast.Call) and norm.call_name(n.value) == "parse_args_with_defaults":
            return n.targets[0].id
    return "params"


def check_params(ctx, num=5):
    P = ctx.P
    tg = P.fn(CSV, "WorkloadTraceGenerator.__init__")
    ctx.touch(tg)
    st = [n for n in own_nodes(tg.node) if isinstance(n, ast.Assign) and any(self_attr(t, "max_ticks") for t in n.targets)]
    ok = len(st) == 1 and ratform.same(st[0].value, ratform.parse("int(duration_secs * ticks_per_second)"))
    ctx.ob(num, "K7", "the writer covers int(duration * ticks_per_second) ticks — the same number of ticks the simulator runs", ok, tg, st[0] if st else tg.node,
           detail=f"{[stmt_text(s) for s in st]}")
    sim = P.fn(SIM, "run_simulator")
    ctx.touch(sim)
    env = single_defs(sim)
    loops = [n for n in sim.node.body if isinstance(n, ast.For) and isinstance(n.iter, ast.Call) and norm.is_name(n.iter.func, "range")]
    pn = params_name(sim)
    oks = any(ratform.same(norm.subst(l.iter.args[0], env), ratform.parse(f"int({pn}['duration'] * {pn}['ticks_per_second'])")) for l in loops)
    ctx.ob(num, "K7", "the simulator runs int(duration * ticks_per_second) ticks", oks, sim, loops[0] if loops else sim.node, detail=f"{[stmt_text(l) for l in loops]}")
    for cmd in ("gentrace_command", "mkregression_command"):
        f = P.fn(MAIN, cmd)
        ctx.touch(f)
        pn = params_name(f)
        cs = calls_named(f, "WorkloadTraceGenerator")
        ok = len(cs) == 1 and norm.U(norm.kwarg(cs[0], "ticks_per_second", 1)) == f"{pn}['ticks_per_second']" and norm.U(norm.kwarg(cs[0], "duration_secs", 2)) == f"{pn}['duration']"
        ctx.ob(num, "K6", f"{cmd} writes the trace with the configuration's own ticks_per_second and duration", ok, f, cs[0] if cs else f.node, detail=f"{[norm.U(c) for c in cs]}")
    for cmd in ("run_command", "mkregression_command"):
        f = P.fn(MAIN, cmd)
        cs = calls_named(f, "get_workload")
        ok = len(cs) == 1 and len(cs[0].args) == 1 and norm.U(cs[0].args[0]) == f"{params_name(f)}['ticks_per_second']"
        ctx.ob(num, "K6", f"{cmd} replays the trace at the configuration's own ticks_per_second", ok, f, cs[0] if cs else f.node, detail=f"{[norm.U(c) for c in cs]}")
    # `run` and `gentrace` complete the same parameter file with the same defaults and hand the result to WorkloadGenerator(**params): neither
    # side may adjust an entry on its own afterwards (the other side would generate a different workload from the same file)
    for rel, q in ((SIM, "run_simulator"), (MAIN, "gentrace_command"), (MAIN, "mkregression_command")):
        f = P.fn(rel, q)
        pn = params_name(f)
        stores = []
        for n in own_nodes(f.node):
            tg = []
            if isinstance(n, (ast.Assign, ast.Delete)):
                tg = n.targets
            elif isinstance(n, (ast.AugAssign, ast.AnnAssign)):
                tg = [n.target]
            for t in tg:
                if isinstance(t, ast.Subscript) and norm.is_name(t.value, pn):
                    stores.append(n)
            if isinstance(n, ast.Call) and isinstance(n.func, ast.Attribute) and norm.is_name(n.func.value, pn) and n.func.attr in ("update", "pop", "setdefault", "clear", "popitem"):
                stores.append(n)
        ctx.ob(num, "K1", f"{q} uses the completed parameters as they are (no entry is rewritten before the generator is built from them)", not stores, f,
               stores[0] if stores else f.node, construct=f"no store to {pn}[..]", detail=f"{[stmt_text(x)[:80] for x in stores]}" if stores else "no subscript store / update on the parameter dict")
    # the trace holds every row the generator produced: the writing loop hands each row to the writer in the iteration that produced it
    for cmd in ("gentrace_command", "mkregression_command"):
        f = P.fn(MAIN, cmd)
        g = cfg_of(f, subst_env=False)
        loops = [n for n in own_nodes(f.node) if isinstance(n, ast.For) and isinstance(n.iter, ast.Call) and norm.call_name(n.iter) == "generate_rows" and isinstance(n.target, ast.Name)]
        ok = len(loops) == 1
        d = f"{len(loops)} loop(s) over generate_rows()"
        if ok:
            lp = loops[0]
            ws = [c for c in ast.walk(lp) if isinstance(c, ast.Call) and isinstance(c.func, ast.Attribute) and c.func.attr == "write_row" and len(c.args) == 1 and norm.is_name(c.args[0], lp.target.id)]
            hid = g.node_of(lp).id
            skip = g.path_avoiding(hid, {hid, g.exit.id}, {g.node_of(w).id for w in ws}, edge_ok=lambda a, b, lab, hid=hid: not (a == hid and lab == "done")) if ws else [hid]
            ok = len(ws) == 1 and skip is None
            d = f"write_row(<row>) sites in the loop: {len(ws)}; reached in every iteration: {skip is None}"
        ctx.ob(num, "K3", f"{cmd} writes every row the trace generator yields (each row in the iteration that produced it: none is held back, none is dropped)", ok, f,
               loops[0] if loops else f.node, construct="for row in generate_rows(): writer.write_row(row)", detail=d)
    gw = P.fn(WL, "WorkloadReader.get_workload")
    ctx.touch(gw)
    rs = [r for r in own_nodes(gw.node) if isinstance(r, ast.Return)]
    ok = len(rs) == 1 and norm.U(rs[0].value) == "WorkloadTrace(self, ticks_per_second)"
    ctx.ob(num, "K6", "get_workload hands the tick rate to the replay object unchanged", ok, gw, rs[0] if rs else gw.node, detail=f"{[stmt_text(r) for r in rs]}")


def _anc(n):
    from ..model import ancestors
    return list(ancestors(n))


def run(ctx):
    f, g, w = check_cursor(ctx, 1)
    le = check_condition(ctx, f, g, w, 2)
    check_flush(ctx, 3)
    check_grid(ctx, le, 4)
    check_params(ctx, 5)
    # (4) "written at tick k => delivered at tick k" also needs the stamp to come back from the file as the number that was written: the
    # arrival column is written from the row's own arrival and parsed back with float() (the clauses are C14#2, here for that column only)
    from . import c14, c07
    arrival_only = lambda what, fn: "arrival" in what
    dct, wr, pr, rp = c14.check_tables(Renumber(ctx, {1: 4}, only=lambda what, fn: False))
    c14.check_flows(Renumber(ctx, {2: 4, 5: 4}, only=arrival_only), dct, wr, pr, rp, 2)
    c14.check_arrival_source(Renumber(ctx, {2: 4}, only=arrival_only), 2)
    # (5) `run` and `gentrace` each build a generator of their own from the same parameters and seed: the two see the same arrivals only if
    # every draw of the generator comes from its own seeded stream (C07#3/#5, here for the workload module only)
    in_workload = lambda what, fn: fn is not None and fn.mod.rel == WL
    c07.check_randomness(Renumber(ctx, {3: 5}, only=in_workload), 3)
    c07.check_generator(Renumber(ctx, {5: 5}, only=in_workload), 5)
