"""C17 — naive scheduler (and the starter template): whole-pool FIFO without retries or preemption."""
from __future__ import annotations

import ast
from typing import List, Optional

from .. import norm
from ..model import own_nodes, stmt_text, parent
from ..util import cfg_of, calls_named, single_defs
from .common import *
from . import sched

EXPLANATION = (
    "Static decision of the structural clauses of C17 for the function registered as the `naive` scheduler and for the starter "
    "scheduler parsed out of the SCHEDULER_TEMPLATE string literal.  (1) at most one Assignment per pool per round: no path from "
    "the Assignment construction to another construction avoids the header of the loop over pool indices; pools whose free CPU "
    "or RAM is <= 0 are skipped (facts at the construction).  (2) cpu/ram are the pool's avail_cpu_pool/avail_ram_pool of the "
    "same pool index, unchanged (identity flow after substituting single-definition locals), and pool_id is that index.  (3) "
    "FIFO: arrivals are appended to the queue in order before the scan, the scan only pops the head, survivors are re-queued at "
    "the tail by one extend after the pool loop.  (4) the Assignment is reached only with `not is_pipeline_successful()` and `not "
    "(FAILED count > 0)` of the popped pipeline, and such pipelines are dropped, not re-queued.  (5) with multi-operator "
    "containers disabled (template: always) ops is get_ops(ASSIGNABLE_STATES, require_parents_complete=True)[:1], non-empty.  "
    "(6) no Suspend is constructed and the returned suspension list is always empty.")
UNDECIDED = "nothing about run-time queue contents is executed; arrival patterns and failure histories are covered by the per-round structure"
ASSUMPTIONS = COMMON_ASSUMPTIONS


def check_one(ctx, key: str, label: str, always_single: bool):
    P = ctx.P
    f = _flag_call_split(sched.scheduler(P, key))
    ctx.touch(f)
    g = cfg_of(f)   # conditions normalised with single-definition locals substituted
    env = single_defs(f)
    sites = [c for fn_, c in sched.assignment_sites(P, f) if same_fn(fn_, f)]
    ctx.count_min(f"Assignment( sites in the {label} scheduler", len(sites), 1)
    params = f.params()
    ctx.need(len(params) >= 3, f"{label} scheduler must take (s, results, pipelines)")
    s_p, res_p, pip_p = params[0], params[1], params[2]
    for c in sites:
        # pool loop
        loops = []
        p_ = enclosing(c, (ast.For, ast.While), f.node)
        while p_ is not None:
            loops.append(p_)
            p_ = enclosing(p_, (ast.For, ast.While), f.node)
        pool_loop = None
        for lp in loops:
            if isinstance(lp, ast.For) and isinstance(lp.target, ast.Name) and norm.U(lp.iter) in (
                    f"range({s_p}.executor.num_pools)", f"range(len({s_p}.executor.pools))"):
                pool_loop = lp
        ctx.ob(1, "K3", f"[{label}] assignments are made inside a loop over all pool indices", pool_loop is not None, f, c,
               detail=f"enclosing loops: {[stmt_text(l) for l in loops]}")
        if pool_loop is None:
            continue
        pv = pool_loop.target.id
        hid = g.node_of(pool_loop).id
        cid = g.node_of(c).id
        others = {g.node_of(x).id for x in sites}
        again = g.path_avoiding(cid, others, {hid})
        ctx.ob(1, "K3", f"[{label}] at most one container per pool per round: after an Assignment the scan of that pool ends", again is None, f, c,
               construct="one Assignment per pool iteration",
               detail="every path from the construction to another construction passes the pool-loop header (next pool)" if again is None
               else f"a second Assignment can be built for the same pool: {g.describe_path(again)}")
        pool_id = sched.asg_arg(c, "pool_id")
        ctx.ob(2, "K6", f"[{label}] the container is placed on the pool that was inspected", pool_id is not None and norm.is_name(pool_id, pv), f, c,
               construct="pool_id = loop index", detail=f"pool_id={norm.U(pool_id) if pool_id is not None else None}; loop variable {pv}")
        for res, attr in (("cpu", "avail_cpu_pool"), ("ram", "avail_ram_pool")):
            a = sched.asg_arg(c, res)
            ar = norm.U(norm.subst(a, env)) if a is not None else None
            want = f"{s_p}.executor.pools[{pv}].{attr}"
            ok = ar == want
            # the local snapshot must be taken in this pool iteration (not hoisted out of the loop)
            if ok and isinstance(a, ast.Name):
                defs = [n for n in own_nodes(f.node) if isinstance(n, ast.Assign) and any(norm.is_name(t, a.id) for t in n.targets)]
                ok = all(enclosing(d, (ast.For,), f.node) is pool_loop or any(l is pool_loop for l in _loops_of(d, f)) for d in defs)
            ctx.ob(2, "K6", f"[{label}] the container gets all {res.upper()} the pool has free at that moment (the pool's {attr}, unchanged)", ok, f, c,
                   construct=f"{res} = pool.{attr}", detail=f"{res}={norm.U(a) if a is not None else None} resolves to {ar}; required {want}")
            pos = norm.entails(g.facts_at(c), ("cmp", "<", "0", want))
            ctx.ob(1, "K2", f"[{label}] pools without free {res.upper()} are skipped", pos, f, c, construct=f"skip pools with {attr} <= 0",
                   detail=f"facts at the construction: {sorted(norm.show(x) for x in g.facts_at(c) if attr in norm.show(x))}")
        # (4) drop completed / failed pipelines
        pr = sched.asg_arg(c, "priority")
        pipe = None
        if isinstance(pr, ast.Attribute) and isinstance(pr.value, ast.Name):
            pipe = pr.value.id
        fs = g.facts_at(c)
        if pipe:
            rs = f"{pipe}.runtime_status()"
            not_done = norm.entails(fs, ("truth", f"{rs}.is_pipeline_successful()", False))
            not_failed = _count_zero(fs, f"{rs}.state_counts[OperatorState.FAILED]")
            ctx.ob(4, "K2", f"[{label}] no work is assigned for a pipeline that already completed", not_done, f, c, construct="guard: not successful",
                   detail=f"facts: {sorted(norm.show(x) for x in fs if 'successful' in norm.show(x))}")
            ctx.ob(4, "K2", f"[{label}] no work is ever assigned for a pipeline one of whose operators has failed (checked on the pipeline's live state)",
                   not_failed, f, c, construct="guard: no FAILED operator",
                   detail=f"required: {rs}.state_counts[OperatorState.FAILED] <= 0; facts: {sorted(norm.show(x) for x in fs if 'FAILED' in norm.show(x) or 'fail' in norm.show(x))}")
            pid = sched.asg_arg(c, "pipeline_id")
            ctx.ob(2, "K6", f"[{label}] priority and pipeline id of the assignment are the popped pipeline's", pid is not None and norm.U(pid) == f"{pipe}.pipeline_id"
                   and norm.U(pr) == f"{pipe}.priority", f, c, construct="priority/pipeline_id flow",
                   detail=f"priority={norm.U(pr)}, pipeline_id={norm.U(pid) if pid is not None else None}")
        else:
            ctx.ob(4, "K2", f"[{label}] the assignment's priority is the popped pipeline's", False, f, c, construct="priority flow", detail=f"priority={norm.U(pr) if pr is not None else None}")
        # (5) operators
        ops = sched.asg_arg(c, "ops")
        nonempty = ops is not None and (norm.entails(fs, ("truth", norm.U(ops), True)) or norm.entails(fs, ("truth", norm.U(norm.subst(ops, env)), True)))
        ctx.ob(5, "K2", f"[{label}] an Assignment is only built for a non-empty operator list", nonempty, f, c, construct="ops non-empty",
               detail=f"facts: {sorted(norm.show(x) for x in fs if ops is not None and norm.U(ops) in norm.show(x))}")
        if ops is not None and isinstance(ops, ast.Name) and pipe:
            defs = sched.reaching_defs(f, g, c, ops.id)
            ctx.ob(5, "K6", f"[{label}] the operator list has a definition reaching the Assignment", bool(defs), f, c, construct="ops definition", detail=f"{[stmt_text(d) for d in defs]}")
            single_seen = False
            for d in defs:
                if not isinstance(d, ast.Assign):
                    ctx.ob(5, "K6", f"[{label}] ops is assigned from get_ops", False, f, d, detail=stmt_text(d))
                    continue
                v = norm.subst(d.value, {k: e for k, e in env.items() if k != ops.id})
                dfs = g.facts_at(d)
                multi_flag = f"{s_p}.multi_operator_containers"
                is_multi_branch = (not always_single) and norm.entails(dfs, ("truth", multi_flag, True))
                is_single_branch = always_single or norm.entails(dfs, ("truth", multi_flag, False))
                okcall, how = _get_ops_form(v, pipe)
                if is_multi_branch:
                    ctx.ob(5, "K6", f"[{label}] in multi-operator mode the operators come from the pipeline's get_ops(ASSIGNABLE_STATES, ...)",
                           okcall in ("ready", "ready1", "any", "any1"), f, d, detail=how)
                elif is_single_branch:
                    single_seen = True
                    ctx.ob(5, "K6", f"[{label}] with multi-operator containers disabled each container holds exactly one ready operator: "
                           "get_ops(ASSIGNABLE_STATES, require_parents_complete=True)[:1]", okcall == "ready1", f, d, detail=how)
                else:
                    ctx.ob(5, "K6", f"[{label}] the operator selection is decided by the multi_operator_containers flag", False, f, d,
                           detail=f"definition `{stmt_text(d)}` is not under a test of {multi_flag}; facts: {sorted(norm.show(x) for x in dfs)}")
            ctx.ob(5, "K6", f"[{label}] there is a single-operator selection", single_seen, f, c, construct="single-operator branch", detail=f"{len(defs)} definition(s)")
        # collected into the returned list, once
        asg_name = None
        pa = parent(c)
        if isinstance(pa, ast.Assign) and len(pa.targets) == 1 and isinstance(pa.targets[0], ast.Name):
            asg_name = pa.targets[0].id
        rets = sched.suspension_returns(P, f)
        out_names = {norm.U(r.value.elts[1]) for r, first in rets if isinstance(r.value, ast.Tuple) and len(r.value.elts) == 2 and isinstance(r.value.elts[1], ast.Name)}
        # the object may reach the append through plain copies (`assignment = ret` after a looked-through helper)
        names = sched.copy_closure(f, asg_name) if asg_name else set()
        apps = [a for a in calls_named(f, "append") if isinstance(a.func, ast.Attribute) and isinstance(a.func.value, ast.Name) and a.func.value.id in out_names
                and a.args and ((isinstance(a.args[0], ast.Name) and a.args[0].id in names) if asg_name else a.args[0] is c)]
        if len(names) > 1 and len(apps) == 1:
            okapp = g.escapes(pa, {g.node_of(sched.stmt_of(apps[0])).id}, {hid, g.exit.id, cid}) is None
        else:
            okapp = len(apps) == 1 and (g.node_of(apps[0]).id == cid or g.path_avoiding(cid, {hid, g.exit.id}, {g.node_of(apps[0]).id}) is None)
        ctx.ob(1, "K6", f"[{label}] every Assignment built is returned (appended once to the returned list)", okapp, f, c, construct="assignments.append(assignment)",
               detail=f"returned list(s): {sorted(out_names)}; appends: {[norm.U(a) for a in apps]}")
    # (3) FIFO queue discipline
    qattr = None
    pops = [c for c in own_nodes(f.node) if isinstance(c, ast.Call) and isinstance(c.func, ast.Attribute) and c.func.attr == "pop"
            and isinstance(c.func.value, ast.Attribute) and norm.is_name(c.func.value.value, s_p)]
    if pops:
        qattr = pops[0].func.value.attr
    ctx.ob(3, "K3", f"[{label}] the scan takes pipelines from the queue by pop", bool(pops), f, pops[0] if pops else f.node, construct="queue.pop(0)", detail=f"{[norm.U(p) for p in pops]}")
    if not qattr:
        return
    q = f"{s_p}.{qattr}"
    for p_ in pops:
        ok = len(p_.args) == 1 and isinstance(p_.args[0], ast.Constant) and p_.args[0].value == 0 and norm.entails(g.facts_at(p_), ("truth", q, True))
        ctx.ob(3, "K3", f"[{label}] pipelines are taken from the HEAD of the queue (pop(0)), only while it is non-empty", ok, f, p_,
               detail=f"{norm.U(p_)}; facts: {sorted(norm.show(x) for x in g.facts_at(p_) if qattr in norm.show(x))}")
    muts = [c for c in own_nodes(f.node) if isinstance(c, ast.Call) and isinstance(c.func, ast.Attribute) and norm.U(c.func.value) == q]
    apps = [c for c in muts if c.func.attr == "append"]
    exts = [c for c in muts if c.func.attr == "extend"]
    other = [c for c in muts if c.func.attr not in ("append", "extend", "pop")]
    rebinding = [n for n in own_nodes(f.node) if isinstance(n, (ast.Assign, ast.AugAssign)) and any(norm.U(t) == q for t in (n.targets if isinstance(n, ast.Assign) else [n.target]))]
    ctx.ob(3, "K1", f"[{label}] the queue is only appended to, extended and popped (no sort/insert/remove/rebinding)", not other and not rebinding, f,
           (other + rebinding)[0] if other or rebinding else f.node, construct="queue mutations", detail=f"other: {[norm.U(o) for o in other]} {[stmt_text(r) for r in rebinding]}")
    # arrivals appended in order before the scan
    okarr = False
    d = "no `for p in pipelines: queue.append(p)`"
    for a in apps:
        lp = enclosing_for(a, f.node)
        if lp is not None and norm.is_name(lp.iter, pip_p) and isinstance(lp.target, ast.Name) and a.args and norm.is_name(a.args[0], lp.target.id) \
                and enclosing_for(lp, f.node) is None:
            lh = g.node_of(lp).id
            skip = g.path_avoiding(lh, {lh, g.exit.id}, {g.node_of(a).id}, edge_ok=lambda x, y, lab, lh=lh: not (x == lh and lab == "done"))
            before = all(g.dominates(lp, p_) for p_ in pops)
            # paths that bypass the arrival loop carry "no arrivals"
            IN = g.facts(blocked={lh})
            ex = IN.get(g.exit.id)
            byp_ok = ex is None or norm.entails(ex, ("truth", pip_p, False))
            okarr = skip is None and before and byp_ok
            d = f"`{stmt_text(lp)}`: every arrival appended: {skip is None}; before the scan: {before}; bypassed only without arrivals: {byp_ok}"
    arr_ext = [c for c in exts if c.args and norm.is_name(c.args[0], pip_p)]
    exts = [c for c in exts if c not in arr_ext]
    if not okarr and len(arr_ext) == 1 and enclosing(arr_ext[0], (ast.For, ast.While), f.node) is None:
        a = arr_ext[0]
        before = all(g.dominates(a, p_) for p_ in pops)
        IN = g.facts(blocked={g.node_of(a).id})
        ex = IN.get(g.exit.id)
        byp_ok = ex is None or norm.entails(ex, ("truth", pip_p, False))
        okarr = before and byp_ok
        d = f"`{norm.U(a)}`: before the scan: {before}; bypassed only without arrivals: {byp_ok}"
    ctx.ob(3, "K3", f"[{label}] new pipelines join the tail of the queue in arrival order before the scan", okarr, f, (apps + arr_ext)[0] if (apps or arr_ext) else f.node,
           construct="for p in pipelines: queue.append(p)", detail=d)
    # survivors re-queued
    okreq = False
    d = "no single extend of a requeue list after the pool loop"
    if len(exts) == 1 and exts[0].args and isinstance(exts[0].args[0], ast.Name):
        rq = exts[0].args[0].id
        rq_apps = [c for c in calls_named(f, "append") if isinstance(c.func, ast.Attribute) and norm.is_name(c.func.value, rq)]
        rq_init = [n for n in own_nodes(f.node) if isinstance(n, ast.Assign) and any(norm.is_name(t, rq) for t in n.targets)]
        outside = enclosing(exts[0], (ast.For, ast.While), f.node) is None
        # the extend is on every path that scanned (every path from a pop to exit passes it)
        allp = all(g.path_avoiding(g.node_of(p_).id, {g.exit.id}, {g.node_of(exts[0]).id}) is None for p_ in pops)
        init_ok = len(rq_init) == 1 and isinstance(rq_init[0].value, ast.List) and not rq_init[0].value.elts and enclosing(rq_init[0], (ast.For, ast.While), f.node) is None
        okreq = outside and allp and init_ok and len(rq_apps) >= 1
        d = f"extend outside loops: {outside}; on every path after a pop: {allp}; requeue list fresh each round: {init_ok}"
        # a popped pipeline that is neither completed nor failed is re-queued (appended to the requeue list) on every path
        for p_ in pops:
            pa = parent(p_)
            pvn = pa.targets[0].id if isinstance(pa, ast.Assign) and isinstance(pa.targets[0], ast.Name) else None
            if pvn:
                rs = f"{pvn}.runtime_status()"
                drop = [("truth", f"{rs}.is_pipeline_successful()", True)] + _count_positive_atoms(f"{rs}.state_counts[OperatorState.FAILED]")
                rq_ids = {g.node_of(a).id for a in rq_apps if a.args and norm.is_name(a.args[0], pvn)}

                def edge_ok(x, y, lab, drop=drop):
                    if isinstance(lab, tuple) and lab[0] == "cond":
                        at = norm.atoms_true(lab[1])
                        if any(dd in at for dd in drop):
                            return False
                        # a disjunction (successful or failed) taken as true: also a drop
                        for a_ in at:
                            if a_[0] == "or" and all(k in drop for k in a_[1]):
                                return False
                    return True
                lost = g.path_avoiding(g.node_of(p_).id, {g.node_of(x).id for x in pops} | {g.node_of(exts[0]).id}, rq_ids, edge_ok=edge_ok)
                ctx.ob(3, "K3", f"[{label}] a popped pipeline that is neither completed nor failed goes back to the queue (nothing is lost)", lost is None, f, p_,
                       construct="survivors re-queued", detail="every non-drop path appends it to the requeue list" if lost is None else f"lost on: {g.describe_path(lost)}")
                # and completed/failed ones are NOT re-queued
                for a in rq_apps:
                    if a.args and norm.is_name(a.args[0], pvn):
                        fs = g.facts_at(a)
                        okd = norm.entails(fs, ("truth", f"{rs}.is_pipeline_successful()", False)) and _count_zero(fs, f"{rs}.state_counts[OperatorState.FAILED]")
                        ctx.ob(4, "K2", f"[{label}] completed or failed pipelines are dropped from the queue for good (never re-queued)", okd, f, a,
                               detail=f"facts at the re-queue: {sorted(norm.show(x) for x in fs if pvn in norm.show(x))}")
    ctx.ob(3, "K3", f"[{label}] scanned survivors are re-queued at the tail by one extend after the pool loop", okreq, f, exts[0] if exts else f.node,
           construct="queue.extend(requeue)", detail=d)


def _loops_of(n, f):
    out = []
    p_ = enclosing(n, (ast.For, ast.While), f.node)
    while p_ is not None:
        out.append(p_)
        p_ = enclosing(p_, (ast.For, ast.While), f.node)
    return out


def _get_ops_form(v: ast.expr, pipe: str):
    """-> ('ready1' | 'ready' | 'any1' | 'any' | None, description)"""
    first = False
    e = v
    if isinstance(e, ast.Subscript) and isinstance(e.slice, ast.Slice) and e.slice.lower is None and e.slice.step is None \
            and isinstance(e.slice.upper, ast.Constant) and e.slice.upper.value == 1:
        first, e = True, e.value
    if isinstance(e, ast.Call) and norm.call_name(e) == "get_ops" and isinstance(e.func, ast.Attribute) and norm.U(e.func.value) == f"{pipe}.runtime_status()":
        st = norm.kwarg(e, "state", 0)
        rp = norm.kwarg(e, "require_parents_complete", 1)
        if st is None or norm.U(st) != "ASSIGNABLE_STATES":
            return None, f"{norm.U(v)}: state filter is not ASSIGNABLE_STATES"
        ready = rp is not None and isinstance(rp, ast.Constant) and rp.value is True
        return (("ready" if ready else "any") + ("1" if first else "")), norm.U(v)
    return None, f"{norm.U(v)}: not a get_ops call on the popped pipeline's runtime status"


def _count_zero(fs, term: str) -> bool:
    """the FAILED count (a non-negative integer) is 0: `<= 0`, `< 1` or `== 0`"""
    return any(norm.entails(fs, z) for z in (("cmp", "<=", term, "0"), ("cmp", "<", term, "1"), norm.mk_cmp("==", "0", term)))


def _count_positive_atoms(term: str):
    """atoms that say the count is positive: `0 < n`, `1 <= n`, `n != 0`"""
    return [("cmp", "<", "0", term), ("cmp", "<=", "1", term), norm.mk_cmp("!=", "0", term)]


def _flag_call_split(f):
    """Normal form for C17#5.  One listing call parameterised by a mode flag, cut to one element under the same flag,

        X = R.get_ops(S, require_parents_complete=E);  if E: X = X[:1]          (consecutive, the `if` has no else and nothing else in it)

    is the case split the rule is stated on:  `if E: X = R.get_ops(S, require_parents_complete=True)[:1]  else: X = R.get_ops(S,
    require_parents_complete=False)`  (E a plain name or attribute path, so evaluating it twice changes nothing)."""
    from ..model import Func
    from ..util import _block_lists

    def match(blk, i):
        a = blk[i]
        if i + 1 >= len(blk) or not (isinstance(a, ast.Assign) and len(a.targets) == 1 and isinstance(a.targets[0], ast.Name)):
            return None
        x = a.targets[0].id
        c = a.value
        if not (isinstance(c, ast.Call) and norm.call_name(c) == "get_ops" and isinstance(c.func, ast.Attribute)):
            return None
        kws = [k for k in c.keywords if k.arg == "require_parents_complete"]
        if len(kws) != 1 or not isinstance(kws[0].value, (ast.Name, ast.Attribute)):
            return None
        e = kws[0].value
        b = blk[i + 1]
        if not (isinstance(b, ast.If) and not b.orelse and len(b.body) == 1 and norm.U(b.test) == norm.U(e)):
            return None
        t = b.body[0]
        if not (isinstance(t, ast.Assign) and len(t.targets) == 1 and norm.is_name(t.targets[0], x) and isinstance(t.value, ast.Subscript)
                and norm.is_name(t.value.value, x) and isinstance(t.value.slice, ast.Slice) and t.value.slice.lower is None and t.value.slice.step is None
                and isinstance(t.value.slice.upper, ast.Constant) and t.value.slice.upper.value == 1):
            return None
        if any(isinstance(n, ast.Name) and n.id == x for n in ast.walk(c)):
            return None
        return x, c, e, b, t
    if not any(match(blk, i) for o in ast.walk(f.node) for _f, blk in _block_lists(o) for i in range(len(blk))):
        return f
    node = norm.clone(f.node)
    for o in list(ast.walk(node)):
        for _f, blk in _block_lists(o):
            i = 0
            while i < len(blk):
                m = match(blk, i)
                if m:
                    x, c, e, b, t = m

                    def call(flag):
                        cc = norm.clone(c)
                        for k in cc.keywords:
                            if k.arg == "require_parents_complete":
                                k.value = ast.Constant(value=flag)
                        return cc
                    one = ast.Assign(targets=[ast.Name(id=x, ctx=ast.Store())], value=ast.Subscript(value=call(True), slice=norm.clone(t.value.slice), ctx=ast.Load()))
                    many = ast.Assign(targets=[ast.Name(id=x, ctx=ast.Store())], value=call(False))
                    new = ast.If(test=norm.clone(e), body=[one], orelse=[many])
                    for z in ast.walk(new):
                        if not hasattr(z, "lineno") and isinstance(z, (ast.expr, ast.stmt)):
                            ast.copy_location(z, blk[i])
                    ast.copy_location(one, t)
                    ast.copy_location(many, blk[i])
                    blk[i:i + 2] = [new]
                i += 1
    ast.fix_missing_locations(node)
    for n in ast.walk(node):
        for ch in ast.iter_child_nodes(n):
            ch._parent = n  # type: ignore[attr-defined]
    node._parent = getattr(f.node, "_parent", None)  # type: ignore[attr-defined]
    return Func(f.mod, f.qual, node, f.cls)


def run(ctx):
    # "ready" is what get_ops(require_parents_complete=True) says it is: listed only if every parent is COMPLETED (C01#7/#8)
    from . import c01
    c01.check_get_ops(Renumber(ctx, {7: 5, 8: 5}))
    check_one(ctx, "naive", "naive", always_single=False)
    sched.ob_never_suspends(ctx, 6, "naive", "naive")
    check_one(ctx, "tmpl", "template", always_single=True)
    sched.ob_never_suspends(ctx, 6, "tmpl", "template")
    sched.fixture_suspend_present(ctx, 6)
    # arrival order reaches the policy through the wrapper that every simulation calls: it must not hold back or reorder what arrives (#3)
    sched.ob_wrapper_passes_through(ctx, 3)
