"""A1: program model.  Parses every module of the package once, never imports or runs repository code.

Provides:  Program (module table, function/class tables with qualified names, parent links,
the starter-scheduler template parsed out of its string literal, Go sources as text).
"""
from __future__ import annotations

import ast
import hashlib
import os
import re
from dataclasses import dataclass, field
from typing import Dict, Iterator, List, Optional, Tuple

REPO = os.environ.get("EUDOXIA_REPO", "/repo")


class AnalysisError(Exception):
    """Anchor vanished / instance count below the confirmed minimum / unresolved receiver."""


@dataclass
class Func:
    mod: "Module"
    qual: str            # e.g. "Container._tick_generator" or "naive_pipeline"
    node: ast.AST        # FunctionDef / AsyncFunctionDef / Lambda
    cls: Optional[str]   # enclosing class name, if a method

    @property
    def name(self) -> str:
        return self.qual.rsplit(".", 1)[-1]

    @property
    def file(self) -> str:
        return self.mod.rel

    def __repr__(self):
        return f"<Func {self.mod.rel}::{self.qual}>"

    def line(self, n: ast.AST) -> int:
        return self.mod.line(n)

    def decorators(self) -> List[ast.expr]:
        return getattr(self.node, "decorator_list", [])

    def params(self) -> List[str]:
        a = self.node.args
        return [x.arg for x in (a.posonlyargs + a.args + a.kwonlyargs)]


@dataclass
class Cls:
    mod: "Module"
    name: str
    node: ast.ClassDef
    methods: Dict[str, Func] = field(default_factory=dict)

    def bases(self) -> List[str]:
        return [ast.unparse(b) for b in self.node.bases]


def same_fn(a, b) -> bool:
    """The same function of the program (a Func and its helper-inlined copy are the same function)."""
    return a is b or (a is not None and b is not None and a.mod.rel == b.mod.rel and a.qual == b.qual)


class Module:
    def __init__(self, rel: str, src: str, line_offset: int = 0, virtual: bool = False):
        self.rel = rel                  # path relative to the repo root (virtual modules: "<file>#NAME")
        self.src = src
        self.sha = hashlib.sha256(src.encode()).hexdigest()
        self.line_offset = line_offset  # for the template: position of the literal in its host file
        self.virtual = virtual
        self.tree = ast.parse(src)
        self.funcs: Dict[str, Func] = {}
        self.classes: Dict[str, Cls] = {}
        self._index()

    def line(self, n: ast.AST) -> int:
        return getattr(n, "lineno", 0) + self.line_offset

    def _index(self):
        for n in ast.walk(self.tree):
            for ch in ast.iter_child_nodes(n):
                ch._parent = n  # type: ignore[attr-defined]
        self.tree._parent = None  # type: ignore[attr-defined]

        def visit(body, prefix: str, cls: Optional[str]):
            for st in body:
                if isinstance(st, (ast.FunctionDef, ast.AsyncFunctionDef)):
                    q = prefix + st.name
                    f = Func(self, q, st, cls)
                    self.funcs[q] = f
                    if cls and prefix == cls + ".":
                        self.classes[cls].methods[st.name] = f
                    visit(st.body, q + ".", None)
                elif isinstance(st, ast.ClassDef):
                    self.classes[st.name] = Cls(self, st.name, st)
                    _dataclass_init(st)       # @dataclass without __init__: the constructor the decorator generates, written out
                    visit(st.body, st.name + ".", st.name)
                elif isinstance(st, (ast.If, ast.Try, ast.With, ast.For, ast.While)):
                    for fld in ("body", "orelse", "finalbody"):
                        visit(getattr(st, fld, []) or [], prefix, cls)
                    for h in getattr(st, "handlers", []) or []:
                        visit(h.body, prefix, cls)

        visit(self.tree.body, "", None)

    # module-level simple assignments  NAME = <expr>
    def module_assigns(self) -> Dict[str, ast.expr]:
        out = {}
        for st in self.tree.body:
            if isinstance(st, ast.Assign) and len(st.targets) == 1 and isinstance(st.targets[0], ast.Name):
                out[st.targets[0].id] = st.value
            elif isinstance(st, ast.AnnAssign) and isinstance(st.target, ast.Name) and st.value is not None:
                out[st.target.id] = st.value
        return out


def _dataclass_init(cl: ast.ClassDef) -> None:
    """For `@dataclass class C: a: T; b: U = d; def __post_init__(self): BODY` without an __init__ of its own, add to the class (for the
    analysis only) the constructor the decorator generates:  def __init__(self, a, b=d): self.a = a; self.b = b; BODY
    — a record class and its dataclass spelling are the same class for the rules."""
    decs = [ast.unparse(d).split("(")[0].split(".")[-1] for d in cl.decorator_list]
    if "dataclass" not in decs:
        return
    for d in cl.decorator_list:
        if isinstance(d, ast.Call):
            for k in d.keywords:
                if k.arg == "init" and isinstance(k.value, ast.Constant) and k.value.value is False:
                    return
    if any(isinstance(st, (ast.FunctionDef, ast.AsyncFunctionDef)) and st.name == "__init__" for st in cl.body):
        return
    fields = []
    for st in cl.body:
        if isinstance(st, ast.AnnAssign) and isinstance(st.target, ast.Name):
            ann = ast.unparse(st.annotation)
            if ann.startswith("ClassVar") or ann.startswith("typing.ClassVar"):
                continue
            default = st.value
            if isinstance(default, ast.Call) and ast.unparse(default.func).split(".")[-1] == "field":
                dv = None
                for k in default.keywords:
                    if k.arg == "default":
                        dv = k.value
                    elif k.arg == "default_factory":
                        dv = ast.Call(func=k.value, args=[], keywords=[])
                    elif k.arg == "init" and isinstance(k.value, ast.Constant) and k.value.value is False:
                        dv = "skip"
                if dv == "skip":
                    continue
                default = dv
            fields.append((st.target.id, default, st))
    if not fields:
        return
    post = [st for st in cl.body if isinstance(st, ast.FunctionDef) and st.name == "__post_init__"]
    body: List[ast.stmt] = []
    fnames = {n for n, _, _ in fields}
    if post and len(post[0].args.args) == 1 and not any(isinstance(x, ast.Call) and isinstance(x.func, ast.Attribute) and isinstance(x.func.value, ast.Name)
                                                         and x.func.value.id == post[0].args.args[0].arg for st in post[0].body for x in ast.walk(st)):
        # the hook's statements first, reading and re-binding the parameters where it reads and stores the fields, then the stores: an exception
        # in the hook abandons the object either way, and what the hook leaves in a field is what the parameter holds at the store
        import copy
        selfn = post[0].args.args[0].arg

        class _F(ast.NodeTransformer):
            def visit_Attribute(self, a):
                self.generic_visit(a)
                if isinstance(a.value, ast.Name) and a.value.id == selfn and a.attr in fnames:
                    return ast.copy_location(ast.Name(id=a.attr, ctx=a.ctx), a)
                return a
        for st in post[0].body:
            if isinstance(st, ast.Expr) and isinstance(st.value, ast.Constant) and isinstance(st.value.value, str):
                continue
            c = _F().visit(copy.deepcopy(st))
            for x in ast.walk(c):
                if isinstance(x, ast.Name) and x.id == selfn and selfn != "self":
                    x.id = "self"
            body.append(c)
        cl.body[:] = [x for x in cl.body if x is not post[0]]
    for name, default, st in fields:
        a = ast.Assign(targets=[ast.Attribute(value=ast.Name(id="self", ctx=ast.Load()), attr=name, ctx=ast.Store())], value=ast.Name(id=name, ctx=ast.Load()))
        ast.copy_location(a, st)
        body.append(a)
    args = ast.arguments(posonlyargs=[], args=[ast.arg(arg="self")] + [ast.arg(arg=n) for n, _, _ in fields], vararg=None, kwonlyargs=[], kw_defaults=[], kwarg=None,
                         defaults=[d for _, d, _ in fields if d is not None])
    fn = ast.FunctionDef(name="__init__", args=args, body=body or [ast.Pass()], decorator_list=[], returns=None, type_comment=None, type_params=[])
    ast.copy_location(fn, cl)
    ast.fix_missing_locations(fn)
    for n in ast.walk(fn):
        for ch in ast.iter_child_nodes(n):
            ch._parent = n  # type: ignore[attr-defined]
    fn._parent = cl  # type: ignore[attr-defined]
    fn._synthetic = True  # type: ignore[attr-defined]
    cl.body.append(fn)


def parent(n: ast.AST) -> Optional[ast.AST]:
    return getattr(n, "_parent", None)


def ancestors(n: ast.AST) -> Iterator[ast.AST]:
    p = parent(n)
    while p is not None:
        yield p
        p = parent(p)


def enclosing_stmt(n: ast.AST) -> ast.stmt:
    while not isinstance(n, ast.stmt):
        n = parent(n)
    return n


class Program:
    """All Python modules under <repo>/eudoxia, the starter-scheduler template, and the Go sources."""

    PKG = "eudoxia"

    def __init__(self, root: str = None):
        self.root = root or REPO
        self.modules: Dict[str, Module] = {}
        pkg = os.path.join(self.root, self.PKG)
        if not os.path.isdir(pkg):
            raise AnalysisError(f"package directory {pkg} not found")
        for dp, dn, fn in sorted(os.walk(pkg)):
            dn[:] = sorted(d for d in dn if d != "__pycache__")
            for f in sorted(fn):
                if f.endswith(".py"):
                    full = os.path.join(dp, f)
                    rel = os.path.relpath(full, self.root)
                    try:
                        src = open(full, encoding="utf-8").read()
                        self.modules[rel] = Module(rel, src)
                    except SyntaxError as e:
                        raise AnalysisError(f"{rel} does not parse: {e}")
        self.template = self._load_template()
        if self.template is not None:
            self.modules[self.template.rel] = self.template
        self.go: Dict[str, str] = {}
        for rel in ("go/eudoxia/types.go", "go/naive/main.go"):
            p = os.path.join(self.root, rel)
            if os.path.exists(p):
                self.go[rel] = open(p, encoding="utf-8").read()
        self.pure_methods = self._pure_method_names()
        self.mod_attrs = self._mod_attr_sets()
        from . import cfg as _cfg
        _cfg.PURE_METHODS = self.pure_methods
        _cfg.MOD_ATTRS = self.mod_attrs

    def _mod_attr_sets(self):
        """name of function/method -> attribute names it may store to, transitively through package calls (by name)."""
        by_name: Dict[str, list] = {}
        for m in self.modules.values():
            for f in m.funcs.values():
                by_name.setdefault(f.name, []).append(f)
        direct: Dict[str, set] = {}
        calls: Dict[str, set] = {}
        for name, fs in by_name.items():
            d, c = set(), set()
            for f in fs:
                for n in own_nodes(f.node):
                    if isinstance(n, (ast.Assign, ast.AugAssign, ast.AnnAssign, ast.Delete)):
                        tg = n.targets if isinstance(n, (ast.Assign, ast.Delete)) else [n.target]
                        for t in tg:
                            for x in ast.walk(t):
                                if isinstance(x, ast.Attribute) and isinstance(x.ctx, (ast.Store, ast.Del)):
                                    d.add(x.attr)
                                if isinstance(x, ast.Subscript) and isinstance(x.ctx, (ast.Store, ast.Del)) and isinstance(x.value, ast.Attribute):
                                    d.add(x.value.attr)
                    if isinstance(n, ast.Call):
                        fn = n.func
                        nm = fn.attr if isinstance(fn, ast.Attribute) else fn.id if isinstance(fn, ast.Name) else None
                        if nm in by_name:
                            c.add(nm)
                        if isinstance(fn, ast.Attribute) and isinstance(fn.value, ast.Attribute) and fn.attr in (
                                "append", "extend", "insert", "remove", "pop", "clear", "update", "setdefault", "sort", "add", "discard"):
                            d.add(fn.value.attr)
            direct[name], calls[name] = d, c
        out = {k: set(v) for k, v in direct.items()}
        changed = True
        while changed:
            changed = False
            for k in out:
                for c in calls[k]:
                    if not out[c] <= out[k]:
                        out[k] |= out[c]
                        changed = True
        return out

    # -- purity (used by the must-facts kill rule: a call of a pure method does not invalidate facts) ---
    _PURE_BUILTINS = {"len", "sum", "all", "any", "str", "list", "tuple", "isinstance", "max", "min", "int", "float", "bool",
                      "sorted", "enumerate", "range", "zip", "repr", "abs", "round", "set", "frozenset", "dict", "iter", "callable",
                      "getattr", "hasattr", "id", "type"}

    def _pure_method_names(self):
        by_name: Dict[str, list] = {}
        for m in self.modules.values():
            for f in m.funcs.values():
                by_name.setdefault(f.name, []).append(f)
        pure = set(by_name)

        def impure(f: Func, pure_now) -> bool:
            for n in own_nodes(f.node):
                if isinstance(n, (ast.Yield, ast.YieldFrom, ast.Await, ast.Global, ast.Nonlocal, ast.Raise)):
                    if not isinstance(n, ast.Raise):
                        return True
                if isinstance(n, (ast.Assign, ast.AugAssign, ast.AnnAssign, ast.Delete)):
                    tg = n.targets if isinstance(n, (ast.Assign, ast.Delete)) else [n.target]
                    for t in tg:
                        for x in ast.walk(t):
                            if isinstance(x, (ast.Attribute, ast.Subscript)) and isinstance(getattr(x, "ctx", None), (ast.Store, ast.Del)):
                                # lazy-initialised getter:  if self.X is None: self.X = <new object>   (idempotent, observably pure)
                                p_ = getattr(n, "_parent", None)
                                if isinstance(n, ast.Assign) and isinstance(p_, ast.If) and isinstance(p_.test, ast.Compare) and len(p_.test.ops) == 1 \
                                        and isinstance(p_.test.ops[0], ast.Is) and ast.unparse(p_.test.left) == ast.unparse(t) \
                                        and isinstance(p_.test.comparators[0], ast.Constant) and p_.test.comparators[0].value is None \
                                        and isinstance(n.value, ast.Call) and isinstance(n.value.func, ast.Name) and n.value.func.id[:1].isupper():
                                    continue
                                return True
                if isinstance(n, ast.Call):
                    fn = n.func
                    if isinstance(fn, ast.Attribute):
                        if fn.attr in ("append", "extend", "insert", "remove", "pop", "clear", "update", "setdefault", "sort", "add",
                                       "discard", "popitem", "reverse", "write", "writerow", "info", "debug", "warning", "error"):
                            # logging is output only; list mutation of a *local* list is fine
                            if fn.attr in ("info", "debug", "warning", "error"):
                                continue
                            if isinstance(fn.value, ast.Name) and fn.value.id not in ("self",):
                                continue
                            return True
                        if fn.attr in by_name and fn.attr not in pure_now:
                            return True
                        if fn.attr not in by_name and fn.attr not in ("items", "keys", "values", "get", "format", "join", "split", "strip",
                                                                       "startswith", "endswith", "index", "count", "copy", "lower", "upper",
                                                                       "mean", "percentile", "sqrt", "log", "power", "sum", "array", "floor", "ceil", "isclose"):
                            return True
                    elif isinstance(fn, ast.Name):
                        if fn.id in by_name:
                            if fn.id not in pure_now:
                                return True
                        elif fn.id not in self._PURE_BUILTINS and not fn.id[:1].isupper():
                            return True
                    else:
                        return True
            return False

        changed = True
        while changed:
            changed = False
            for name in sorted(pure):
                if any(impure(f, pure) for f in by_name[name]):
                    pure.discard(name)
                    changed = True
        return pure

    # -- template -------------------------------------------------------------------------------
    TEMPLATE_REL = "eudoxia/__main__.py#SCHEDULER_TEMPLATE"

    def _load_template(self) -> Optional[Module]:
        host = self.modules.get("eudoxia/__main__.py")
        if host is None:
            return None
        for st in host.tree.body:
            if (isinstance(st, ast.Assign) and len(st.targets) == 1 and isinstance(st.targets[0], ast.Name)
                    and st.targets[0].id == "SCHEDULER_TEMPLATE" and isinstance(st.value, ast.Constant)
                    and isinstance(st.value.value, str)):
                text = st.value.value
                # str.format semantics, done textually: {scheduler_name} -> identifier, {{ -> {, }} -> }
                text = text.replace("{scheduler_name}", "tmpl").replace("{{", "{").replace("}}", "}")
                try:
                    return Module(self.TEMPLATE_REL, text, line_offset=st.value.lineno - 1, virtual=True)
                except SyntaxError as e:
                    raise AnalysisError(f"SCHEDULER_TEMPLATE does not parse as Python: {e}")
        return None

    # -- lookup -----------------------------------------------------------------------------------
    def mod(self, rel: str) -> Module:
        rel = self._norm(rel)
        if rel not in self.modules:
            raise AnalysisError(f"anchor module {rel} not found")
        return self.modules[rel]

    def _norm(self, rel: str) -> str:
        if rel in self.modules:
            return rel
        cand = [r for r in self.modules if r.endswith("/" + rel) or r == "eudoxia/" + rel]
        if len(cand) == 1:
            return cand[0]
        return rel

    def fn(self, rel: str, qual: str, raw: bool = False) -> Func:
        """Locate a function by file and qualified name; falls back to a unique match anywhere in the package.
        Unless `raw`, the function is returned with its private single-purpose helpers inlined at statement level
        (util.inline_helpers): "extract method" is the most common refactoring and changes nothing a rule cares about."""
        f = self._fn_raw(rel, qual)
        if raw:
            return f
        from .util import inline_helpers
        return inline_helpers(self, f)

    def _fn_raw(self, rel: str, qual: str) -> Func:
        rel = self._norm(rel)
        m = self.modules.get(rel)
        if m and qual in m.funcs:
            return m.funcs[qual]
        hits = [mm.funcs[qual] for mm in self.modules.values() if qual in mm.funcs and not mm.virtual]
        if len(hits) == 1:
            return hits[0]
        raise AnalysisError(f"anchor function {rel}::{qual} not found")

    def has_fn(self, rel: str, qual: str) -> bool:
        try:
            self.fn(rel, qual)
            return True
        except AnalysisError:
            return False

    def cls(self, rel: str, name: str) -> Cls:
        rel = self._norm(rel)
        m = self.modules.get(rel)
        if m and name in m.classes:
            return m.classes[name]
        hits = [mm.classes[name] for mm in self.modules.values() if name in mm.classes]
        if len(hits) == 1:
            return hits[0]
        raise AnalysisError(f"anchor class {rel}::{name} not found")

    def all_funcs(self, include_template: bool = True, raw: bool = False) -> Iterator[Func]:
        """Every function of the package, in the form fn() hands them out (private helpers inlined, helpers that were absorbed into all their
        callers not listed on their own); raw=True gives the functions as parsed."""
        if not raw:
            from .util import view_funcs
        for m in self.modules.values():
            if m.virtual and not include_template:
                continue
            for f in (m.funcs.values() if raw else view_funcs(self, m)):
                yield f

    def real_modules(self) -> Iterator[Module]:
        for m in self.modules.values():
            if not m.virtual:
                yield m

    # -- registries -------------------------------------------------------------------------------
    def registered(self, decorator: str) -> Dict[str, Func]:
        """Functions decorated with @<decorator>(key="K") -> {K: func} (template included, key 'tmpl')."""
        out: Dict[str, Func] = {}
        for f in self.all_funcs(raw=True):
            for d in f.decorators():
                if isinstance(d, ast.Call) and _last_name(d.func) == decorator:
                    key = None
                    for kw in d.keywords:
                        if kw.arg == "key" and isinstance(kw.value, ast.Constant):
                            key = kw.value.value
                    if key is None and d.args and isinstance(d.args[0], ast.Constant):
                        key = d.args[0].value
                    if key is not None:
                        out[str(key)] = f
        return out

    def scheduler(self, key: str) -> Func:
        r = self.registered("register_scheduler")
        if key not in r:
            raise AnalysisError(f"no function registered with @register_scheduler(key={key!r})")
        return r[key]

    def scheduler_init(self, key: str) -> Func:
        r = self.registered("register_scheduler_init")
        if key not in r:
            raise AnalysisError(f"no function registered with @register_scheduler_init(key={key!r})")
        return r[key]

    def digest(self) -> str:
        h = hashlib.sha256()
        for rel in sorted(self.modules):
            h.update(rel.encode()); h.update(self.modules[rel].sha.encode())
        for rel in sorted(self.go):
            h.update(rel.encode()); h.update(hashlib.sha256(self.go[rel].encode()).hexdigest().encode())
        return h.hexdigest()


def _last_name(e: ast.expr) -> Optional[str]:
    if isinstance(e, ast.Name):
        return e.id
    if isinstance(e, ast.Attribute):
        return e.attr
    return None


last_name = _last_name


def own_nodes(fn_node: ast.AST) -> Iterator[ast.AST]:
    """Walk a function body without descending into nested function/class definitions (lambdas are included)."""
    stack = list(ast.iter_child_nodes(fn_node))
    while stack:
        n = stack.pop()
        yield n
        if isinstance(n, (ast.FunctionDef, ast.AsyncFunctionDef, ast.ClassDef)):
            continue
        stack.extend(ast.iter_child_nodes(n))


def calls_in(node: ast.AST) -> List[ast.Call]:
    return [n for n in own_nodes(node) if isinstance(n, ast.Call)]


def stmt_text(n: ast.AST, limit: int = 160) -> str:
    """Normalised one-line text of a statement header (used in finding keys: no line numbers)."""
    if isinstance(n, (ast.If, ast.While)):
        t = ("if " if isinstance(n, ast.If) else "while ") + ast.unparse(n.test)
    elif isinstance(n, ast.For):
        t = f"for {ast.unparse(n.target)} in {ast.unparse(n.iter)}"
    elif isinstance(n, (ast.FunctionDef, ast.AsyncFunctionDef)):
        t = f"def {n.name}"
    elif isinstance(n, ast.ClassDef):
        t = f"class {n.name}"
    elif isinstance(n, ast.With):
        t = "with " + ", ".join(ast.unparse(i) for i in n.items)
    elif isinstance(n, ast.Try):
        t = "try"
    else:
        t = ast.unparse(n)
    t = re.sub(r"\s+", " ", t).strip()
    return t[:limit]
