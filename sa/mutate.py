"""Thorough tier: a self-validating sweep over program variants derived from the current tree (DESIGN §6).
Variants are written to a temporary directory, analysed statically, and removed; nothing of the repository is ever run.

  sensitivity variants  edits that break one obligation; the property's check must report a violation on the variant
                        (curated one-edit variants in sa/variants.py + the independently seeded changes in /verif/seeded)
  silence variants      behaviour-preserving rewrites produced by AST transformers (rename locals, swap comparison
                        operands, len(x) > 0 <-> x, inserted no-ops); the check must give the same verdict as on the tree

The verdict of the command is the verdict on the unmodified tree; a sensitivity variant that is not reported or a silence
variant that raises an alarm means the rule set is vacuous / brittle on today's code and stops the run with ANALYSIS-ERROR.
"""
from __future__ import annotations

import ast
import json
import os
import shutil
import subprocess
import sys
import tempfile
from concurrent.futures import ThreadPoolExecutor
from typing import Dict, List, Optional, Tuple

from .model import AnalysisError, REPO

VERIF = os.path.dirname(os.path.dirname(os.path.abspath(__file__)))


# -- silence transformers ----------------------------------------------------------------------------------

class RenameLocals(ast.NodeTransformer):
    """Consistently rename the plain local variables of every function (suffix _r)."""

    def visit_FunctionDef(self, node: ast.FunctionDef):
        self.generic_visit(node)
        params = {a.arg for a in node.args.posonlyargs + node.args.args + node.args.kwonlyargs}
        if node.args.vararg:
            params.add(node.args.vararg.arg)
        if node.args.kwarg:
            params.add(node.args.kwarg.arg)
        bound, banned = set(), set(params)
        for n in ast.walk(node):
            if isinstance(n, (ast.Global, ast.Nonlocal)):
                banned |= set(n.names)
            if isinstance(n, (ast.FunctionDef, ast.AsyncFunctionDef, ast.ClassDef)) and n is not node:
                banned.add(n.name)
                # do not rename names captured by nested scopes
                for m in ast.walk(n):
                    if isinstance(m, ast.Name):
                        banned.add(m.id)
            if isinstance(n, ast.Name) and isinstance(n.ctx, ast.Store):
                bound.add(n.id)
            if isinstance(n, (ast.Import, ast.ImportFrom)):
                for a in n.names:
                    banned.add((a.asname or a.name).split(".")[0])
            if isinstance(n, ast.ExceptHandler) and n.name:
                banned.add(n.name)
        todo = {b for b in bound - banned if not b.startswith("_") and not b.endswith("_r")}
        if not todo:
            return node
        for n in ast.walk(node):
            if isinstance(n, ast.Name) and n.id in todo:
                n.id = n.id + "_r"
        return node


class SwapCompare(ast.NodeTransformer):
    """a < b  ->  b > a   (single-operator order/equality comparisons)."""
    FLIP = {ast.Lt: ast.Gt, ast.Gt: ast.Lt, ast.LtE: ast.GtE, ast.GtE: ast.LtE, ast.Eq: ast.Eq, ast.NotEq: ast.NotEq}

    def visit_Compare(self, node: ast.Compare):
        self.generic_visit(node)
        if len(node.ops) == 1 and type(node.ops[0]) in self.FLIP and not isinstance(node.left, ast.Constant):
            return ast.Compare(left=node.comparators[0], ops=[self.FLIP[type(node.ops[0])]()], comparators=[node.left])
        return node


class LenTruth(ast.NodeTransformer):
    """if len(x) > 0  ->  if x      and     if not x  ->  if len(x) == 0   (only in if/while/assert tests)."""

    def _t(self, test):
        if isinstance(test, ast.Compare) and len(test.ops) == 1 and isinstance(test.ops[0], ast.Gt) and isinstance(test.left, ast.Call) \
                and isinstance(test.left.func, ast.Name) and test.left.func.id == "len" and isinstance(test.comparators[0], ast.Constant) and test.comparators[0].value == 0:
            return test.left.args[0]
        if isinstance(test, ast.BoolOp):
            test.values = [self._t(v) for v in test.values]
        return test

    def visit_If(self, node):
        self.generic_visit(node)
        node.test = self._t(node.test)
        return node

    def visit_While(self, node):
        self.generic_visit(node)
        node.test = self._t(node.test)
        return node


class InsertNoops(ast.NodeTransformer):
    """A `pass` at the start of every function body (after the docstring) and an unused local at the end of every loop-free module."""

    def visit_FunctionDef(self, node):
        self.generic_visit(node)
        i = 1 if (node.body and isinstance(node.body[0], ast.Expr) and isinstance(node.body[0].value, ast.Constant) and isinstance(node.body[0].value.value, str)) else 0
        node.body.insert(i, ast.Pass())
        return node


SILENCE = {"rename-locals": RenameLocals, "swap-compare": SwapCompare, "len-truth": LenTruth, "noop": InsertNoops}


def _transform_file(path: str, tr_cls) -> bool:
    src = open(path, encoding="utf-8").read()
    tree = ast.parse(src)
    new = tr_cls().visit(tree)
    ast.fix_missing_locations(new)
    out = ast.unparse(new)
    if out == ast.unparse(ast.parse(src)):
        return False
    open(path, "w", encoding="utf-8").write(out + "\n")
    return True


# -- variants -----------------------------------------------------------------------------------------------

def _copy_tree(repo: str) -> str:
    d = tempfile.mkdtemp(prefix="sa-sweep-")
    from .variant import copy_tree
    copy_tree(repo, d)
    return d


def _run_check(prop: str, d: str) -> Tuple[int, List[str], List[str]]:
    r = subprocess.run(["/venv/bin/python", "-m", "sa.check", prop, "--repo", d, "--tier", "quick"], cwd=VERIF, capture_output=True, text=True,
                       env={**os.environ, "SA_OUT": d, "VERIF_TIER": "quick"})
    rules = sorted({l.split()[0] for l in r.stdout.splitlines() if l.startswith("  C") and "#" in l.split()[0]})
    tail = [l for l in r.stdout.splitlines() if l.startswith(("ANALYSIS-ERROR", "VIOLATION"))][:3]
    return r.returncode, rules, tail


def _do(job) -> Dict:
    kind, name, prop, repo, spec = job
    d = _copy_tree(repo)
    try:
        if kind == "edit":
            for (f, old, new) in spec:
                p = os.path.join(d, f)
                if not os.path.exists(p):
                    return {"kind": kind, "name": name, "status": "skipped", "why": f"{f} missing"}
                s = open(p, encoding="utf-8").read()
                if s.count(old) != 1:
                    return {"kind": kind, "name": name, "status": "skipped", "why": f"anchor text occurs {s.count(old)} times in {f} (tree was edited)"}
                open(p, "w", encoding="utf-8").write(s.replace(old, new))
        elif kind in ("patch", "refactor"):
            r = subprocess.run(["patch", "-p1", "-s", "--no-backup-if-mismatch", "-i", spec], cwd=d, capture_output=True, text=True)
            if r.returncode != 0:
                return {"kind": kind, "name": name, "status": "skipped", "why": "patch does not apply to the current tree"}
        elif kind == "silence":
            tr, files = spec
            changed = False
            for f in files:
                p = os.path.join(d, f)
                if os.path.exists(p) and p.endswith(".py"):
                    try:
                        changed = _transform_file(p, SILENCE[tr]) or changed
                    except SyntaxError:
                        pass
            if not changed:
                return {"kind": kind, "name": name, "status": "skipped", "why": "transformer changed nothing"}
        rc, rules, tail = _run_check(prop, d)
        return {"kind": kind, "name": name, "status": "ran", "rc": rc, "rules": rules, "tail": tail}
    finally:
        shutil.rmtree(d, ignore_errors=True)


def sweep(prop: str, P, ctx) -> Dict:
    from . import variants
    repo = P.root
    props = {json.loads(l)["id"]: json.loads(l) for l in open(os.path.join(VERIF, "properties.jsonl"))}
    files = [f for f in props[prop]["anchors"]["files"] if f.endswith(".py")]
    jobs = []
    for name, edits in variants.SENSITIVITY.get(prop, []):
        jobs.append(("edit", name, prop, repo, edits))
    sd = os.path.join(VERIF, "seeded")
    if os.path.isdir(sd):
        for s in sorted(os.listdir(sd)):
            mp = os.path.join(sd, s, "meta.json")
            if os.path.exists(mp) and (json.load(open(mp)).get("clause_owner") or json.load(open(mp)).get("breaks_property")) == prop:
                jobs.append(("patch", f"seeded/{s}", prop, repo, os.path.join(sd, s, "patch.diff")))
    rd = os.path.join(VERIF, "refactors")
    if os.path.isdir(rd):
        for s_ in sorted(os.listdir(rd)):
            pp = os.path.join(rd, s_, "patch.diff")
            if os.path.exists(pp):
                touched = json.load(open(os.path.join(rd, s_, "meta.json"))).get("files_touched", [])
                if any(t in props[prop]["anchors"]["files"] for t in touched):
                    jobs.append(("refactor", f"refactors/{s_}", prop, repo, pp))
    for tr in SILENCE:
        jobs.append(("silence", f"{tr}", prop, repo, (tr, files)))
        for f in files:
            jobs.append(("silence", f"{tr}:{f}", prop, repo, (tr, [f])))
    # verdict on the unmodified tree (known findings make it 0 as well)
    base_viol = sum(1 for o in ctx.obs if not o.ok)
    with ThreadPoolExecutor(max_workers=16) as ex:
        results = list(ex.map(_do, jobs))
    sens = [r for r in results if r["kind"] in ("edit", "patch")]
    sil = [r for r in results if r["kind"] in ("silence", "refactor")]
    missed = [r for r in sens if r["status"] == "ran" and r["rc"] != 1]
    from .report import load_known
    alarmed = [r for r in sil if r["status"] == "ran" and r["rc"] != 0]
    out = {
        "variant_sweep": {
            "variants_analysed": sum(1 for r in results if r["status"] == "ran"),
            "skipped": [f"{r['name']}: {r['why']}" for r in results if r["status"] == "skipped"],
            "sensitivity_total": sum(1 for r in sens if r["status"] == "ran"),
            "sensitivity_fired_as_expected": sum(1 for r in sens if r["status"] == "ran" and r["rc"] == 1),
            "sensitivity_detail": {r["name"]: r.get("rules", []) for r in sens if r["status"] == "ran"},
            "silence_total": sum(1 for r in sil if r["status"] == "ran"),
            "silence_silent_as_expected": sum(1 for r in sil if r["status"] == "ran" and r["rc"] == 0),
            "rule": "sensitivity: one breaking edit per variant (curated edits + the independently seeded changes of this property), the check must exit 1 on the variant; "
                    "silence: a behaviour-preserving AST rewrite of the property's anchor files, or one of the independently written behaviour-preserving refactorings under "
                    "/verif/refactors that touches an anchor file; the check must exit 0 on the variant; variants are analysed, never executed",
        }
    }
    if missed or alarmed:
        msg = []
        for r in missed:
            msg.append(f"sensitivity variant `{r['name']}` was not reported (rc={r['rc']}) {r.get('tail')}")
        for r in alarmed:
            msg.append(f"silence variant `{r['name']}` raised an alarm (rc={r['rc']}, rules {r.get('rules')}) {r.get('tail')}")
        raise AnalysisError("variant sweep: " + "; ".join(msg))
    return out


def _cli():
    """python -m sa.mutate <prop> <transformer> [file ...]   -> run the property's check on one silence variant and show its output"""
    prop, tr = sys.argv[1], sys.argv[2]
    props = {json.loads(l)["id"]: json.loads(l) for l in open(os.path.join(VERIF, "properties.jsonl"))}
    files = sys.argv[3:] or [f for f in props[prop]["anchors"]["files"] if f.endswith(".py")]
    d = _copy_tree(REPO)
    try:
        for f in files:
            p = os.path.join(d, f)
            if os.path.exists(p):
                print("transformed" if _transform_file(p, SILENCE[tr]) else "unchanged", f)
        r = subprocess.run(["/venv/bin/python", "-m", "sa.check", prop, "--repo", d], cwd=VERIF, capture_output=True, text=True, env={**os.environ, "SA_OUT": d})
        print(r.stdout[-6000:])
        if "--keep" in os.environ.get("SA_FLAGS", ""):
            print("kept", d)
            return
    finally:
        if "--keep" not in os.environ.get("SA_FLAGS", ""):
            shutil.rmtree(d, ignore_errors=True)


if __name__ == "__main__":
    _cli()
