"""Thorough tier: self-validating sweep over program variants (DESIGN §6).  Variants are analysed, never run."""
def sweep(prop, P, ctx):
    return {}
